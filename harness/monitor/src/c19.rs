//! C19 — constructors and socket-address conversions keep every endpoint in its role.

use crate::adapt::*;
use ppp::{v1, v2};
use spec::engine::{stream, stream_id, Monitor, StreamSpec, Tier};
use spec::record::Recorder;
use spec::rng::{hash_bytes, Rng};
use spec::v1gen::*;
use std::net::{Ipv4Addr, Ipv6Addr, SocketAddr, SocketAddrV4, SocketAddrV6};

pub struct C19;

#[derive(Clone, Debug)]
struct Tuple {
    v6: bool,
    src: [u8; 16],
    dst: [u8; 16],
    sp: u16,
    dp: u16,
    flow: (u32, u32),
    scope: (u32, u32),
}

impl Tuple {
    fn text(&self) -> String {
        format!("{}:{}:{}:{}:{}:{}:{}:{}:{}", if self.v6 { 6 } else { 4 }, spec::json::hex(&self.src), spec::json::hex(&self.dst), self.sp, self.dp, self.flow.0, self.flow.1, self.scope.0, self.scope.1)
    }
    fn parse(s: &str) -> Option<Tuple> {
        let p: Vec<&str> = s.split(':').collect();
        Some(Tuple {
            v6: p.first()? == &"6",
            src: spec::json::unhex(p.get(1)?)?.try_into().ok()?,
            dst: spec::json::unhex(p.get(2)?)?.try_into().ok()?,
            sp: p.get(3)?.parse().ok()?,
            dp: p.get(4)?.parse().ok()?,
            flow: (p.get(5)?.parse().ok()?, p.get(6)?.parse().ok()?),
            scope: (p.get(7)?.parse().ok()?, p.get(8)?.parse().ok()?),
        })
    }
}

fn q4(a: &[u8; 16]) -> [u8; 4] {
    [a[0], a[1], a[2], a[3]]
}

fn judge(t: &Tuple, rec: &mut Recorder) {
    judge_ordered(t, false, rec)
}

/// `v2_first`: convert the socket-address pair for protocol version 2 before version 1.
fn judge_ordered(t: &Tuple, v2_first: bool, rec: &mut Recorder) {
    let case = format!("tuple:{}", t.text());
    rec.case(hash_bytes(case.as_bytes()), t.src != t.dst && t.sp != t.dp);
    rec.class(if t.v6 { "oracle:ipv6-tuple" } else { "oracle:ipv4-tuple" }, || case.clone());
    if t.src == t.dst && t.sp == t.dp {
        rec.class("oracle:identical-endpoints", || case.clone());
    }
    if t.v6 && t.src[..10] == [0; 10] && t.src[10..12] == [0xff, 0xff] && t.dst[..10] == [0; 10] && t.dst[10..12] == [0xff, 0xff] {
        rec.class("oracle:both-ipv4-mapped", || case.clone());
    }
    let mut bad: Vec<(String, String)> = Vec::new();
    let r = guard(|| {
        let mut bad: Vec<(String, String)> = Vec::new();
        let mut n = 0u64;
        if !t.v6 {
            let (s, d) = (q4(&t.src), q4(&t.dst));
            let want = A1::Tcp4 { src: s, dst: d, sp: t.sp, dp: t.dp };
            let wire: Vec<u8> = [&s[..], &d[..], &t.sp.to_be_bytes()[..], &t.dp.to_be_bytes()[..]].concat();
            // every Into<Ipv4Addr> source the constructors accept
            let news = [
                ("IPv4::new([u8;4])", v1::IPv4::new(s, d, t.sp, t.dp)),
                ("IPv4::new(u32)", v1::IPv4::new(u32::from_be_bytes(s), u32::from_be_bytes(d), t.sp, t.dp)),
                ("IPv4::new(Ipv4Addr)", v1::IPv4::new(Ipv4Addr::from(s), Ipv4Addr::from(d), t.sp, t.dp)),
            ];
            for (name, x) in news.iter() {
                n += 1;
                if x.source_address.octets() != s || x.destination_address.octets() != d || x.source_port != t.sp || x.destination_port != t.dp {
                    bad.push((format!("constructor:{}", name), format!("{:?}", x)));
                }
                // From<IPv4> keeps the value, in both protocol versions
                if a1(&v1::Addresses::from(*x)) != want {
                    bad.push(("from-ipv4:v1".into(), format!("{:?}", v1::Addresses::from(*x))));
                }
                if a2_wire(&v2::Addresses::from(*x)) != (1, wire.clone()) {
                    bad.push(("from-ipv4:v2".into(), format!("{:?}", v2::Addresses::from(*x))));
                }
            }
            for (name, x) in [
                ("Addresses::new_tcp4([u8;4])", v1::Addresses::new_tcp4(s, d, t.sp, t.dp)),
                ("Addresses::new_tcp4(u32)", v1::Addresses::new_tcp4(u32::from_be_bytes(s), u32::from_be_bytes(d), t.sp, t.dp)),
                ("Addresses::new_tcp4(Ipv4Addr)", v1::Addresses::new_tcp4(Ipv4Addr::from(s), Ipv4Addr::from(d), t.sp, t.dp)),
            ] {
                n += 1;
                if a1(&x) != want {
                    bad.push((format!("constructor:{}", name), format!("{:?}", x)));
                }
            }
            // socket address pairs
            let sa = SocketAddr::V4(SocketAddrV4::new(Ipv4Addr::from(s), t.sp));
            let da = SocketAddr::V4(SocketAddrV4::new(Ipv4Addr::from(d), t.dp));
            let (c1, c2) = if v2_first {
                let c2 = v2::Addresses::from((sa, da));
                (v1::Addresses::from((sa, da)), c2)
            } else {
                let c1 = v1::Addresses::from((sa, da));
                (c1, v2::Addresses::from((sa, da)))
            };
            n += 2;
            if a1(&c1) != want {
                bad.push(("socket-pair:v1".into(), format!("{:?}", c1)));
            }
            if a2_wire(&c2) != (1, wire.clone()) {
                bad.push(("socket-pair:v2".into(), format!("{:?}", c2)));
            }
        } else {
            let (s, d) = (t.src, t.dst);
            let want = A1::Tcp6 { src: s, dst: d, sp: t.sp, dp: t.dp };
            let wire: Vec<u8> = [&s[..], &d[..], &t.sp.to_be_bytes()[..], &t.dp.to_be_bytes()[..]].concat();
            let (gs, gd) = (groups_of(s), groups_of(d));
            let news = [
                ("IPv6::new([u8;16])", v1::IPv6::new(s, d, t.sp, t.dp)),
                ("IPv6::new([u16;8])", v1::IPv6::new(gs, gd, t.sp, t.dp)),
                ("IPv6::new(u128)", v1::IPv6::new(u128::from_be_bytes(s), u128::from_be_bytes(d), t.sp, t.dp)),
                ("IPv6::new(Ipv6Addr)", v1::IPv6::new(Ipv6Addr::from(s), Ipv6Addr::from(d), t.sp, t.dp)),
            ];
            for (name, x) in news.iter() {
                n += 1;
                if x.source_address.octets() != s || x.destination_address.octets() != d || x.source_port != t.sp || x.destination_port != t.dp {
                    bad.push((format!("constructor:{}", name), format!("{:?}", x)));
                }
                if a1(&v1::Addresses::from(*x)) != want {
                    bad.push(("from-ipv6:v1".into(), format!("{:?}", v1::Addresses::from(*x))));
                }
                if a2_wire(&v2::Addresses::from(*x)) != (2, wire.clone()) {
                    bad.push(("from-ipv6:v2".into(), format!("{:?}", v2::Addresses::from(*x))));
                }
            }
            for (name, x) in [
                ("Addresses::new_tcp6([u8;16])", v1::Addresses::new_tcp6(s, d, t.sp, t.dp)),
                ("Addresses::new_tcp6([u16;8])", v1::Addresses::new_tcp6(gs, gd, t.sp, t.dp)),
                ("Addresses::new_tcp6(u128)", v1::Addresses::new_tcp6(u128::from_be_bytes(s), u128::from_be_bytes(d), t.sp, t.dp)),
                ("Addresses::new_tcp6(Ipv6Addr)", v1::Addresses::new_tcp6(Ipv6Addr::from(s), Ipv6Addr::from(d), t.sp, t.dp)),
            ] {
                n += 1;
                if a1(&x) != want {
                    bad.push((format!("constructor:{}", name), format!("{:?}", x)));
                }
            }
            let sa = SocketAddr::V6(SocketAddrV6::new(Ipv6Addr::from(s), t.sp, t.flow.0, t.scope.0));
            let da = SocketAddr::V6(SocketAddrV6::new(Ipv6Addr::from(d), t.dp, t.flow.1, t.scope.1));
            let (c1, c2) = if v2_first {
                let c2 = v2::Addresses::from((sa, da));
                (v1::Addresses::from((sa, da)), c2)
            } else {
                let c1 = v1::Addresses::from((sa, da));
                (c1, v2::Addresses::from((sa, da)))
            };
            n += 2;
            if a1(&c1) != want {
                bad.push(("socket-pair:v1".into(), format!("{:?}", c1)));
            }
            if a2_wire(&c2) != (2, wire.clone()) {
                bad.push(("socket-pair:v2".into(), format!("{:?}", c2)));
            }
            // mixed pairs: unknown / unspecified, whatever the order
            let s4 = SocketAddr::V4(SocketAddrV4::new(Ipv4Addr::from(q4(&t.src)), t.sp));
            for (name, pair) in [("v4,v6", (s4, da)), ("v6,v4", (sa, s4))] {
                n += 2;
                if v1::Addresses::from(pair) != v1::Addresses::Unknown {
                    bad.push((format!("mixed-pair:v1:{}", name), format!("{:?}", v1::Addresses::from(pair))));
                }
                if v2::Addresses::from(pair) != v2::Addresses::Unspecified {
                    bad.push((format!("mixed-pair:v2:{}", name), format!("{:?}", v2::Addresses::from(pair))));
                }
            }
            // Unix paths built from the same bytes
            // Unix paths: raw bytes or realistic spellings (dictionary), derived from the tuple
            let (ps, pd) = spec::build::Addr::unix_paths(u64::from_be_bytes([s[8], s[9], s[10], s[11], d[12], d[13], d[14], d[15]]) ^ t.sp as u64);
            let u = v2::Unix::new(ps, pd);
            n += 2;
            if u.source != ps || u.destination != pd {
                bad.push(("constructor:Unix::new".into(), "source/destination paths not in their roles".into()));
            }
            match v2::Addresses::from(u) {
                v2::Addresses::Unix(x) if x.source == ps && x.destination == pd => {}
                other => bad.push(("from-unix:v2".into(), format!("{:?}", other.address_family()))),
            }
        }
        (bad, n)
    });
    match r {
        Ok((b, n)) => {
            rec.events(n);
            bad = b;
            if bad.is_empty() {
                rec.class(if t.v6 { "all-roles-kept|ipv6+unix+mixed" } else { "all-roles-kept|ipv4" }, || case.clone());
            }
        }
        Err(m) => bad.push(("panic".into(), m)),
    }
    for (rule, d) in bad {
        rec.violation(&rule, case.clone(), if t.v6 { "ipv6".into() } else { "ipv4".into() }, format!("{}: arguments (src {:?}, dst {:?}, sport {}, dport {}) gave {}", rule, if t.v6 { &t.src[..] } else { &t.src[..4] }, if t.v6 { &t.dst[..] } else { &t.dst[..4] }, t.sp, t.dp, d));
    }
}

impl Monitor for C19 {
    fn id(&self) -> &'static str {
        "C19"
    }
    fn rule(&self) -> &'static str {
        "cases = (source address, destination address, source port, destination port) tuples - pairwise distinct components in general, but also semantically special addresses (IPv4-mapped / -compatible, link-local with an embedded zone, multicast, NAT64, 6to4, loopback; both endpoints from the same class half of the time) and completely identical endpoints (1 in 32) -, boundary x boundary and random, for IPv4 and IPv6 (IPv6 with random flow-info and scope-id on the socket addresses), passed through every Into source the constructors accept ([u8;4], u32, Ipv4Addr; [u8;16], [u16;8], u128, Ipv6Addr), IPv4::new / IPv6::new / Addresses::new_tcp4 / new_tcp6 / Unix::new, From<IPv4|IPv6|Unix> and From<(SocketAddr, SocketAddr)> in both protocol versions including mixed-family pairs; public fields and variants are compared with the arguments; non-trivial = source != destination and source port != destination port; distinct = distinct tuples"
    }
    fn streams(&self, tier: Tier) -> Vec<StreamSpec> {
        vec![stream("c19-v4", tier.n(50, 1_000_000, 25_000_000)), stream("c19-v6", tier.n(50, 1_000_000, 25_000_000)), spec::engine::exhaustive("calling-context", 2)]
    }
    fn run_case(&self, stream: &str, idx: u64, seed: u64, rec: &mut Recorder) {
        if stream == "calling-context" {
            // the same calls from an ordinary place, a second time, and from a thread-local
            // destructor at thread exit (pure functions do not depend on where they are called)
            let _ = (idx, seed);
            if spec::engine::layer().starts_with("miri") {
                return;
            }
            crate::adapt::judge_context(&["C19"], rec);
            return;
        }
        let mut rng = Rng::for_case(seed, stream_id(stream), idx);
        let rng = &mut rng;
        let (sp, dp) = rand_port_pair(rng);
        let t = if stream == "c19-v4" {
            let (a, b) = rand_v4_pair(rng);
            let mut s = [0u8; 16];
            let mut d = [0u8; 16];
            s[..4].copy_from_slice(&a);
            d[..4].copy_from_slice(&b);
            Tuple { v6: false, src: s, dst: d, sp, dp, flow: (0, 0), scope: (0, 0) }
        } else {
            let (mut a, mut b) = rand_v6_pair(rng);
            let (f, sc) = (rng.next() as u32, rng.next() as u32);
            let same = a == b && sp == dp;
            let zero = rng.chance(1, 4);
            let mut flow = if zero { (0, 0) } else if same { (f, f) } else { (f, rng.next() as u32) };
            let mut scope = if zero { (0, 0) } else if same { (sc, sc) } else { (sc, rng.next() as u32) };
            if !same && rng.chance(1, 6) {
                // relations between what the socket address carries besides the IP and the IP
                // itself: a scope id / flow label that repeats one of the address's 16-bit groups
                // or a port (link-local addresses with the interface index embedded in the second
                // group, as some stacks report them, among them)
                if rng.coin() {
                    a[0] = *rng.pick(&[0xfe80u16, 0xfe80, 0xfebf, 0xff02, 0xfec0]);
                }
                if rng.coin() {
                    b[0] = *rng.pick(&[0xfe80u16, 0xfe80, 0xff02]);
                }
                let g = rng.below(8) as usize;
                if a[g] == 0 && rng.coin() {
                    a[g] = 1 + rng.below(64) as u16;
                }
                match rng.below(5) {
                    0 => scope.0 = a[g] as u32,
                    1 => scope.1 = b[g] as u32,
                    2 => scope = (a[1] as u32, b[1] as u32),
                    3 => flow = (a[g] as u32, b[g] as u32),
                    _ => scope = (sp as u32, dp as u32),
                }
                if a[1] == 0 && rng.coin() {
                    a[1] = 1 + rng.below(32) as u16;
                    scope.0 = a[1] as u32;
                }
            }
            Tuple { v6: true, src: bytes_of(a), dst: bytes_of(b), sp, dp, flow, scope }
        };
        judge(&t, rec);
        // one tuple in four is followed by related tuples on the same thread (conversions are
        // functions of their arguments: nothing may carry over from the previous call)
        if !spec::engine::small() && spec::engine::with_history(idx, 4) {
            let last = if t.v6 { 12 } else { 0 };
            let delta = (rng.next() as u32) | 1;
            let db = delta.to_be_bytes();
            // every sibling is derived from the one judged just before it
            // (1) same addresses, other ports - version 2 converted first
            let mut a = t.clone();
            a.sp = t.sp.wrapping_add(1 + rng.below(1000) as u16);
            a.dp = t.dp ^ 0x0101;
            judge_ordered(&a, true, rec);
            // (2) destination address and ports changed by the same 32-bit delta (any xor-fold of
            //     the endpoints stays the same)
            let mut b = a.clone();
            for k in 0..4 {
                b.dst[last + k] ^= db[k];
            }
            b.sp ^= (delta >> 16) as u16;
            b.dp ^= delta as u16;
            judge(&b, rec);
            // (3) the same with the source address and the ports the other way round
            let mut c = b.clone();
            for k in 0..4 {
                c.src[last + k] ^= db[k];
            }
            c.sp ^= delta as u16;
            c.dp ^= (delta >> 16) as u16;
            judge_ordered(&c, true, rec);
            // (4) a sum-preserving change: +1 on one port, -1 on the other
            let mut e = c.clone();
            e.sp = c.sp.wrapping_add(1);
            e.dp = c.dp.wrapping_sub(1);
            judge(&e, rec);
            // (5) endpoints exchanged
            let mut d = e.clone();
            std::mem::swap(&mut d.src, &mut d.dst);
            std::mem::swap(&mut d.sp, &mut d.dp);
            judge_ordered(&d, true, rec);
            judge_ordered(&t, true, rec);
        }
    }
    fn floor(&self, _tier: Tier) -> Vec<&'static str> {
        vec!["oracle:ipv4-tuple", "oracle:ipv6-tuple", "oracle:identical-endpoints", "oracle:both-ipv4-mapped"]
    }
    fn replay(&self, case: &str, rec: &mut Recorder) {
        if let Some(t) = case.strip_prefix("tuple:").and_then(Tuple::parse) {
            judge(&t, rec);
        }
    }
}
