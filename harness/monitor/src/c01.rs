//! C01 — v1 parser accepts exactly the well-formed lines and decodes them faithfully.
//! Differential monitor: real parse result vs the grammar oracle `spec::v1::v1_ref`.

use crate::adapt::*;
use spec::engine::{Monitor, StreamSpec, Tier};
use spec::json::show;
use spec::record::{skeleton_text, Recorder};
use spec::rng::hash_bytes;
use spec::v1::{v1_ref, Proto, Reject, V1Ref};
use spec::v1gen::{v1_case, v1_streams};

pub struct C01;

pub fn oracle_class(r: &V1Ref) -> String {
    match r {
        V1Ref::Accept(a) => format!("accept-{}", a.proto.keyword().to_lowercase()),
        V1Ref::Reject(r) => format!("reject-{}", r.name()),
    }
}

fn judge_one(entry: &str, input: &[u8], or: &V1Ref, got: &O1, rec: &mut Recorder) {
    rec.event();
    if rec.verbose {
        println!("  {}: oracle {} observed {:?}", entry, oracle_class(or), got);
    }
    let oc = oracle_class(or);
    rec.class(&format!("{}|{}|{}", entry, oc, got.class()), || show(input, 120));
    let viol = |rec: &mut Recorder, rule: &str, detail: String| {
        rec.violation(
            &format!("{}:{}", rule, entry),
            enc_case("v1", input),
            skeleton_text(input),
            format!("{} on {:?}: {}", rule, show(input, 160), detail),
        );
    };
    match (or, got) {
        (V1Ref::Accept(acc), O1::Ok { header, addr, .. }) => {
            let want = &input[..acc.header_len];
            if entry != "fromstr-addr" && header.as_bytes() != want {
                viol(rec, "header-text", format!("reported header {:?}, the line is {:?}", header, show(want, 160)));
            }
            let want_addr = a1_of_accept(acc);
            if *addr != want_addr {
                viol(rec, "decode", format!("decoded {:?}, the line says {:?}", addr, want_addr));
            }
        }
        (V1Ref::Accept(_), O1::Err { kind, .. }) => viol(rec, "wrongly-rejected", format!("well-formed line rejected with {:?}", kind)),
        (V1Ref::Accept(_), O1::Panic(m)) => viol(rec, "wrongly-rejected", format!("well-formed line panics: {}", m)),
        (V1Ref::Reject(r), O1::Ok { header, addr, .. }) => {
            viol(rec, "wrongly-accepted", format!("oracle rejects ({}), parser accepted header {:?} as {:?}", r.name(), header, addr))
        }
        (V1Ref::Reject(_), _) => {}
    }
}

/// One call only (the first pass over a history, see `spec::sib::run_v1_two_pass`): the entry
/// point `which` judged against the oracle.
pub fn judge_light(input: &[u8], which: u64, rec: &mut Recorder) {
    let or = v1_ref(input);
    match (which % 4, std::str::from_utf8(input)) {
        (1, Ok(s)) => judge_one("str", input, &or, &v1_str(s), rec),
        (2, Ok(s)) => judge_one("fromstr-header", input, &or, &v1_fromstr_header(s), rec),
        (3, Ok(s)) => judge_one("fromstr-addr", input, &or, &v1_fromstr_addr(s), rec),
        _ => judge_one("bytes", input, &or, &v1_bytes(input), rec),
    }
}

pub fn judge(input: &[u8], rec: &mut Recorder) {
    let or = v1_ref(input);
    let trivial = match &or {
        V1Ref::Reject(Reject::Keyword) => true,
        V1Ref::Reject(Reject::NoCr) => !input.starts_with(b"PROXY "),
        _ => false,
    };
    rec.case(hash_bytes(input), !trivial);
    rec.class(&format!("oracle:{}", oracle_class(&or)), || show(input, 120));
    if let V1Ref::Accept(a) = &or {
        if a.proto != Proto::Unknown && a.src != a.dst && a.sport != a.dport {
            rec.class("oracle:accept-distinct-endpoints", || show(input, 120));
        }
    }
    let ob = v1_bytes(input);
    judge_one("bytes", input, &or, &ob, rec);
    if let Ok(s) = std::str::from_utf8(input) {
        let os = v1_str(s);
        judge_one("str", input, &or, &os, rec);
        let oh = v1_fromstr_header(s);
        judge_one("fromstr-header", input, &or, &oh, rec);
        let oa = v1_fromstr_addr(s);
        judge_one("fromstr-addr", input, &or, &oa, rec);
    }
}

impl Monitor for C01 {
    fn id(&self) -> &'static str {
        "C01"
    }
    fn rule(&self) -> &'static str {
        "cases = byte strings from the v1 workload (valid lines with distinct endpoints in every spelling, single-field faults, every line ending, lengths around 107, exhaustive token sequences and token edits, byte mutations, random bytes, multi-byte characters around CR), each parsed through try_from(&[u8]) and, when UTF-8, try_from(&str) / FromStr for Header and Addresses, and compared with the independent grammar oracle; a case is non-trivial unless the oracle rejects it for a wrong keyword or it has no CR and does not start with 'PROXY '; distinct = distinct input byte strings (64-bit hash)"
    }
    fn streams(&self, tier: Tier) -> Vec<StreamSpec> {
        let mut s = v1_streams(tier, 10_000);
        if tier != Tier::Miri {
            s.push(spec::engine::exhaustive("v1-huge", 12));
        }
        s
    }
    fn run_case(&self, stream: &str, idx: u64, seed: u64, rec: &mut Recorder) {
        if stream == "v1-huge" {
            // a well-formed line at the front of a buffer of 2 GiB .. 8 GiB (lazily zeroed)
            if !spec::engine::huge_ok() {
                return;
            }
            let mut rng = spec::rng::Rng::new(idx ^ seed.rotate_left(13));
            let mut h = spec::v1gen::valid_ascii_body(&mut rng).into_bytes();
            h.extend_from_slice(b"\r\n");
            let size = spec::engine::HUGE_SIZES[idx as usize % spec::engine::HUGE_SIZES.len()];
            let want = v1_bytes(&h);
            rec.case(spec::rng::hash_bytes(&h) ^ size as u64, true);
            rec.events(2);
            match spec::engine::with_huge(&h, size, |x| (v1_bytes(x), auto_parse(x))) {
                None => rec.class("skipped:huge-allocation-refused", || size.to_string()),
                Some((g, a)) if g == want && want.is_ok() && matches!(&a, OA::V1(o) if o.is_ok()) => rec.class("oracle:line-in-a-multi-GiB-buffer", || format!("{} bytes", size)),
                Some((g, a)) => rec.violation("wrongly-rejected:bytes", enc_case("v1", &h), "huge-buffer".into(), format!("line {:?} alone gives {}, at the front of a zero-filled buffer of {} bytes try_from(&[u8]) gives {} and HeaderResult::parse {}", show(&h, 80), want.class(), size, g.class(), a.class())),
            }
            return;
        }
        let input = v1_case(stream, idx, seed);
        spec::sib::run_v1_two_pass(&input, idx, 4, |input, light| if light { judge_light(input, idx / 64, rec) } else { judge(input, rec) });
    }
    fn cold_start(&self, rec: &mut Recorder) {
        cold_start_equal(rec, "the four v1 entry points", &cold_inputs(), &|x| format!("{:?} {:?}", v1_bytes(x), std::str::from_utf8(x).ok().map(|s| (v1_str(s), v1_fromstr_header(s), v1_fromstr_addr(s)))));
    }
    fn floor(&self, tier: Tier) -> Vec<&'static str> {
        if tier == Tier::Miri {
            return vec!["oracle:accept-tcp4", "oracle:accept-tcp6", "oracle:accept-unknown"];
        }
        vec![
            "oracle:accept-tcp4",
            "oracle:accept-tcp6",
            "oracle:accept-unknown",
            "oracle:accept-distinct-endpoints",
            "oracle:reject-no-cr",
            "oracle:reject-cr-at-end",
            "oracle:reject-cr-not-lf",
            "oracle:reject-too-long",
            "oracle:reject-utf8",
            "oracle:reject-keyword",
            "oracle:reject-protocol",
            "oracle:reject-field-count",
            "oracle:reject-src-addr",
            "oracle:reject-dst-addr",
            "oracle:reject-src-port-signed",
            "oracle:reject-dst-port-signed",
            "oracle:reject-src-port-padded",
            "oracle:reject-dst-port-padded",
            "oracle:reject-src-port-range",
            "oracle:reject-dst-port-range",
            "oracle:reject-src-port-empty",
            "oracle:reject-dst-port-empty",
            "oracle:reject-src-port-nonnumeric",
            "oracle:reject-dst-port-nonnumeric",
        ]
    }
    fn replay(&self, case: &str, rec: &mut Recorder) {
        if let Some((_, bytes)) = dec_case(case) {
            judge(&bytes, rec);
        }
    }
    fn assumptions(&self) -> Vec<&'static str> {
        vec![
            "the grammar oracle spec::v1::v1_ref is a faithful reading of the C01 statement (its address recognisers are differentially tested against std::net by `check --selftest`)",
            "inputs outside the generated workload are not covered",
        ]
    }
}
