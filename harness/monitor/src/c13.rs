//! C13 — re-encoding a parsed v2 header from its parts reproduces it byte for byte.

use crate::adapt::*;
use ppp::v2::{self, Builder};
use spec::engine::{stream, stream_id, Monitor, StreamSpec, Tier};
use spec::json::show;
use spec::record::Recorder;
use spec::rng::{hash_bytes, Rng};
use spec::v2::{tlv_ref, v2_ref, valid_ctl, valid_header, valid_header_with, TlvEnd};

pub struct C13;

pub fn judge(input: &[u8], rec: &mut Recorder) {
    if !v2_ref(input).is_ok() {
        return;
    }
    let fam = input[13] >> 4;
    rec.case(hash_bytes(&input[..input.len().min(4096)]) ^ input.len() as u64, input.len() > 16);
    let r = guard(|| -> Result<Vec<(&'static str, Result<Vec<u8>, String>)>, String> {
        let h = v2::Header::try_from(input).map_err(|e| format!("{:?}", e))?;
        let b = h.as_bytes();
        let mut outs: Vec<(&'static str, Result<Vec<u8>, String>)> = Vec::new();
        let io = |r: std::io::Result<Vec<u8>>| r.map_err(|e| format!("{:?}", e.kind()));
        // 1. raw views
        outs.push((
            "raw-views",
            io(Builder::new(b[12], b[13]).write_payload(h.address_bytes()).and_then(|x| x.write_payload(h.tlv_bytes())).and_then(|x| x.build())),
        ));
        // 2. decoded items, when the section is well-formed - as judged by the reference walk over
        //    the wire bytes, not by the implementation's own verdict
        let wellformed = {
            let size = spec::v2::fam_size(fam).unwrap_or(0);
            fam == 0 || 16 + size > b.len() || tlv_ref(&b[16 + size..]).1 == TlvEnd::Clean
        };
        if wellformed && !h.tlvs().all(|t| t.is_ok()) {
            outs.push(("decoded-items(write_payloads)", Err("the TLV iterator reports an error item on a well-formed section, so the header cannot be rebuilt from its decoded items".to_string())));
        } else if wellformed {
            outs.push((
                "decoded-items(write_payloads)",
                io(Builder::new(b[12], b[13])
                    .write_payload(h.address_bytes())
                    .and_then(|x| x.write_payloads(h.tlvs().map(|t| t.unwrap())))
                    .and_then(|x| x.build())),
            ));
            outs.push((
                "decoded-items(write_tlv)",
                io((|| {
                    let mut x = Builder::new(b[12], b[13]).write_payload(h.address_bytes())?;
                    for t in h.tlvs() {
                        let t = t.unwrap();
                        x = x.write_tlv(t.kind, t.value.as_ref())?;
                    }
                    x.build()
                })()),
            ));
        }
        if wellformed && h.tlvs().all(|t| t.is_ok()) {
            // the decoded items in two batches: the first k through take(k), the rest through
            // skip(k) - together every item once (k = 1, all but one, all)
            let n = h.tlvs().count();
            for (name, k) in [("decoded-items(take(1)+skip(1))", 1usize), ("decoded-items(take(n-1)+skip(n-1))", n.saturating_sub(1)), ("decoded-items(take(n)+skip(n))", n)] {
                if n <= 2000 {
                    outs.push((
                        name,
                        io(Builder::new(b[12], b[13])
                            .write_payload(h.address_bytes())
                            .and_then(|x| x.write_payloads(h.tlvs().take(k).map(|t| t.unwrap())))
                            .and_then(|x| x.write_payloads(h.tlvs().skip(k).map(|t| t.unwrap())))
                            .and_then(|x| x.build())),
                    ));
                }
            }
            // ... and one by one through nth(i)
            if n <= 64 {
                outs.push((
                    "decoded-items(nth(i))",
                    io((|| {
                        let mut x = Builder::new(b[12], b[13]).write_payload(h.address_bytes())?;
                        for i in 0..n {
                            if let Some(Ok(t)) = h.tlvs().nth(i) {
                                x = x.write_payload(t)?;
                            }
                        }
                        x.build()
                    })()),
                ));
            }
        }
        // the original length pinned explicitly, at every position of the call chain: it is the
        // actual length, so the bytes are the same
        let len16 = h.length() as u16;
        outs.push((
            "raw-views+set_length-first",
            io(Builder::new(b[12], b[13]).set_length(len16).write_payload(h.address_bytes()).and_then(|x| x.write_payload(h.tlv_bytes())).and_then(|x| x.build())),
        ));
        outs.push((
            "raw-views+set_length-between",
            io(Builder::new(b[12], b[13]).write_payload(h.address_bytes()).map(|x| x.set_length(len16)).and_then(|x| x.write_payload(h.tlv_bytes())).and_then(|x| x.build())),
        ));
        outs.push((
            "raw-views+set_length-last",
            io(Builder::new(b[12], b[13]).write_payload(h.address_bytes()).and_then(|x| x.write_payload(h.tlv_bytes())).map(|x| x.set_length(len16)).and_then(|x| x.build())),
        ));
        outs.push((
            "section-iterator(write_payload(tlvs()))",
            io(Builder::new(b[12], b[13]).write_payload(h.address_bytes()).and_then(|x| x.write_payload(h.tlvs())).and_then(|x| x.build())),
        ));
        // the TLV iterator handed over after it has been (partly) consumed is still the section
        outs.push((
            "section-iterator-after-iteration",
            io((|| {
                let mut t = h.tlvs();
                let _ = t.next();
                let x = Builder::new(b[12], b[13]).write_payload(h.address_bytes())?;
                let mut u = h.tlvs();
                let _ = u.by_ref().count();
                if h.tlv_bytes().len() % 2 == 0 {
                    x.write_payload(t)?.build()
                } else {
                    x.write_payloads([u])?.build()
                }
            })()),
        ));
        // 3. from the decoded address value, when a family is specified (on the wire)
        if fam == 1 || fam == 2 {
            // ... handed to the builder as a pair of socket addresses, the idiom of the crate's
            // own examples
            let pair: Option<(std::net::SocketAddr, std::net::SocketAddr)> = match h.addresses {
                v2::Addresses::IPv4(a) => Some(((a.source_address, a.source_port).into(), (a.destination_address, a.destination_port).into())),
                v2::Addresses::IPv6(a) => Some(((a.source_address, a.source_port).into(), (a.destination_address, a.destination_port).into())),
                _ => None,
            };
            if let Some(p) = pair {
                outs.push((
                    "decoded-addresses(with_addresses(socket pair))",
                    io(Builder::with_addresses(h.version | h.command, h.protocol, p).write_payload(h.tlv_bytes()).and_then(|x| x.build())),
                ));
            }
        }
        if fam != 0 {
            outs.push((
                "decoded-addresses(with_addresses)",
                io(Builder::with_addresses(h.version | h.command, h.protocol, h.addresses).write_payload(h.tlv_bytes()).and_then(|x| x.build())),
            ));
            outs.push((
                "decoded-addresses(write_payload)",
                io(Builder::new(h.command | h.version, h.address_family() | h.protocol)
                    .write_payload(h.addresses)
                    .and_then(|x| x.write_payload(h.tlv_bytes()))
                    .and_then(|x| x.build())),
            ));
        }
        Ok(outs)
    });
    let want = match v2_ref(input) {
        spec::v2::V2Ref::Ok { total, .. } => &input[..total],
        _ => return,
    };
    let section_kind = {
        let size = spec::v2::fam_size(fam).unwrap_or(0);
        let (items, end) = if fam == 0 { (vec![], TlvEnd::Clean) } else { tlv_ref(&want[16 + size..]) };
        match (items.len(), end) {
            (0, TlvEnd::Clean) => "no-tlvs",
            (_, TlvEnd::Clean) => "wellformed-tlvs",
            _ => "malformed-tlvs",
        }
    };
    rec.class(&format!("oracle:fam{}|{}", fam, section_kind), || show(&input[..input.len().min(40)], 40));
    if want.len() == 16 + 65535 {
        rec.class("oracle:payload=65535", || show(&input[..24], 24));
    }
    let viol = |rec: &mut Recorder, rule: &str, detail: String| {
        rec.violation(rule, enc_case("v2", want), format!("fam{}|{}", fam, section_kind), format!("{} on header {:?} ({} bytes): {}", rule, show(&want[..want.len().min(40)], 40), want.len(), detail));
    };
    match r {
        Err(m) => viol(rec, "panic", m),
        Ok(Err(e)) => rec.class("skipped:implementation-rejects-valid-header", || e.clone()),
        Ok(Ok(outs)) => {
            for (name, out) in outs {
                rec.event();
                match out {
                    Ok(bytes) if bytes == want => rec.class(&format!("rebuilt-identical|{}", name), || show(&want[..want.len().min(40)], 40)),
                    Ok(bytes) => {
                        let at = bytes.iter().zip(want).position(|(a, b)| a != b);
                        viol(rec, &format!("rebuild-differs:{}", name), format!("rebuilt {} bytes vs {} original, first difference at {:?}", bytes.len(), want.len(), at));
                    }
                    Err(e) => viol(rec, &format!("rebuild-fails:{}", name), format!("builder call failed with {}", e)),
                }
            }
        }
    }
}

impl Monitor for C13 {
    fn id(&self) -> &'static str {
        "C13"
    }
    fn rule(&self) -> &'static str {
        "cases = valid v2 headers (all 24 control pairs, distinct non-palindromic address bytes, TLV sections empty / well-formed / truncated / overrunning / random, payloads up to 65535 bytes incl. exactly 65535, with and without trailing bytes); each is parsed and rebuilt through the builder from (a) control bytes + address_bytes() + tlv_bytes(), (b) the decoded TLV items (write_payloads, write_tlv) when the section is well-formed, (c) the TLV iterator as a payload, fresh and after having been advanced / exhausted, (d) the decoded address value (with_addresses; write_payload) when a family is specified; every rebuild must equal the original header bytes; non-trivial = header with a payload; distinct = distinct headers"
    }
    fn streams(&self, tier: Tier) -> Vec<StreamSpec> {
        let mut s = vec![stream("c13-valid", tier.n(40, 800_000, 25_000_000)), stream("c13-pairs", tier.n(24, 48_000, 2_400_000))];
        s.push(stream("c13-echo", tier.n(24, 24 * 6 * 40, 24 * 6 * 4000)));
        if tier != Tier::Miri {
            s.push(spec::engine::exhaustive("v2-collide", 2 * spec::collide::v2_pairs().len() as u64));
        }
        if tier != Tier::Miri {
            // every value of each 16-bit word of IPv4 / IPv6 blocks, each byte of Unix blocks
            s.push(spec::engine::exhaustive("v2-sweep", spec::v2::sweep_count()));
        }
        s
    }
    fn run_case(&self, stream: &str, idx: u64, seed: u64, rec: &mut Recorder) {
        let mut rng = Rng::for_case(seed, stream_id(stream), idx);
        let mut b = Vec::new();
        if stream == "c13-echo" {
            // relations between the parts: the TLV section repeats the header's own address block
            // (once, twice, or followed / preceded by something else), or its own fixed part
            let (vc, fp) = valid_ctl(idx);
            let fam = fp >> 4;
            let blk = spec::v2::address_block(&mut rng, fam);
            let mut sec: Vec<u8> = Vec::new();
            match (idx / 24) % 6 {
                0 => sec.extend_from_slice(&blk),
                1 => {
                    sec.extend_from_slice(&blk);
                    sec.extend_from_slice(&blk);
                }
                2 => {
                    sec.extend_from_slice(&blk);
                    sec.extend_from_slice(&[0x04, 0, 1, 7]);
                }
                3 => {
                    sec.extend_from_slice(&[0x04, 0, 1, 7]);
                    sec.extend_from_slice(&blk);
                }
                4 => {
                    sec.extend_from_slice(&spec::v2::SIG);
                    sec.extend_from_slice(&[vc, fp, 0, 0]);
                }
                _ => {
                    // a block that is itself one well-formed TLV: type, length = block size - 3
                    sec.extend_from_slice(&blk);
                    if sec.len() >= 3 {
                        let n = sec.len() - 3;
                        sec[1] = (n >> 8) as u8;
                        sec[2] = n as u8;
                    }
                }
            }
            // the address block itself equals the section in case 5 (both halves are that TLV)
            let ablk = if (idx / 24) % 6 == 5 { sec.clone() } else { blk };
            let len = ablk.len() + sec.len();
            b.extend_from_slice(&spec::v2::SIG);
            b.extend_from_slice(&[vc, fp, (len >> 8) as u8, len as u8]);
            b.extend_from_slice(&ablk);
            b.extend_from_slice(&sec);
        } else if stream == "v2-collide" {
            b = spec::collide::v2_case(idx);
        } else if stream == "v2-sweep" {
            spec::v2::sweep_case(idx, &mut rng, &mut b);
        } else if stream == "c13-pairs" {
            let (vc, fp) = valid_ctl(idx);
            valid_header_with(&mut rng, &mut b, vc, fp);
        } else {
            valid_header(&mut rng, &mut b);
        }
        if stream != "v2-collide" && rng.chance(1, 4) {
            b.extend_from_slice(b"GET /");
        }
        // one case in four: a history of related headers in one refilled buffer (the rebuilds go
        // through the builder in between, as a proxy that re-emits what it parsed does)
        spec::sib::run_v2(&b, idx, 4, |x| judge(x, rec));
    }
    fn floor(&self, tier: Tier) -> Vec<&'static str> {
        if tier == Tier::Miri {
            return vec!["oracle:fam1|wellformed-tlvs"];
        }
        vec![
            "oracle:fam0|no-tlvs",
            "oracle:fam1|wellformed-tlvs",
            "oracle:fam2|wellformed-tlvs",
            "oracle:fam3|wellformed-tlvs",
            "oracle:fam1|malformed-tlvs",
            "oracle:fam2|malformed-tlvs",
            "oracle:fam3|malformed-tlvs",
            "oracle:fam1|no-tlvs",
            "oracle:payload=65535",
        ]
    }
    fn replay(&self, case: &str, rec: &mut Recorder) {
        if let Some((_, bytes)) = dec_case(case) {
            judge(&bytes, rec);
        }
    }
}
