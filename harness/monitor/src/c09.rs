//! C09 — builder length field is never stale, truncated or silently wrong.
//! C10 — builder output is the in-order concatenation of what was written, nothing else.
//! Both judge the same recorded call histories against `spec::build::Model`; with the `verif`
//! hook the builder's state is compared with the model after every call.

use crate::hist::{exec, Exec, Observed};
use spec::build::*;
use spec::engine::{exhaustive, stream, stream_id, Monitor, StreamSpec, Tier};
use spec::json::show;
use spec::record::Recorder;
use spec::rng::{hash_bytes, Rng};

pub struct C09;
pub struct C10;

#[derive(Clone, Copy, PartialEq)]
enum Which {
    C09,
    C10,
}

fn strip_reservations(h: &History) -> History {
    History { ctor: h.ctor.clone(), ops: h.ops.iter().filter(|o| !matches!(o, Op::Reserve(_))).cloned().collect() }
}

fn flatten_batches(h: &History) -> History {
    let mut ops = Vec::new();
    for o in &h.ops {
        match o {
            Op::Batch(vs) => ops.extend(vs.iter().cloned().map(Op::Write)),
            o => ops.push(o.clone()),
        }
    }
    History { ctor: h.ctor.clone(), ops }
}

/// single writes grouped into batches (the converse of `flatten_batches`)
fn group_writes(h: &History) -> History {
    let mut ops = Vec::new();
    let mut cur: Vec<Val> = Vec::new();
    for o in &h.ops {
        match o {
            Op::Write(v) => cur.push(v.clone()),
            o => {
                if !cur.is_empty() {
                    ops.push(Op::Batch(std::mem::take(&mut cur)));
                }
                ops.push(o.clone());
            }
        }
    }
    if !cur.is_empty() {
        ops.push(Op::Batch(cur));
    }
    History { ctor: h.ctor.clone(), ops }
}

fn permute_tlv_encoders(h: &History) -> History {
    let swap_val = |v: &Val| -> Val {
        match v {
            Val::TlvStruct(k, b) => Val::TlvTuple(*k, b.clone()),
            Val::TlvOwned(k, b) => Val::TlvStruct(*k, b.clone()),
            Val::TlvTuple(k, b) => Val::TlvStruct(*k, b.clone()),
            Val::TlvTupleType(t, b) => Val::TlvStruct(TYPE_CODES[*t].1, b.clone()),
            v => v.clone(),
        }
    };
    let ops = h
        .ops
        .iter()
        .map(|o| match o {
            Op::Write(Val::TlvStruct(k, b)) => Op::WriteTlv(*k, b.clone()),
            Op::Write(v) => Op::Write(swap_val(v)),
            Op::WriteTlv(k, b) => Op::Write(Val::TlvTuple(*k, b.clone())),
            Op::WriteTlvType(t, b) => Op::Write(Val::TlvTupleType(*t, b.clone())),
            Op::Batch(vs) => Op::Batch(vs.iter().map(swap_val).collect()),
            o => o.clone(),
        })
        .collect();
    History { ctor: h.ctor.clone(), ops }
}

fn same_except_length(a: &[u8], b: &[u8]) -> bool {
    a.len() == b.len() && a.len() >= 16 && a[..14] == b[..14] && a[16..] == b[16..]
}

fn first_diff(a: &[u8], b: &[u8]) -> String {
    if a.len() != b.len() {
        return format!("lengths {} vs {}", a.len(), b.len());
    }
    match a.iter().zip(b).position(|(x, y)| x != y) {
        Some(i) => format!("first difference at byte {}: {:02x} vs {:02x}", i, a[i], b[i]),
        None => "identical".into(),
    }
}

fn judge(h: &History, variant: u64, rec: &mut Recorder, which: Which) {
    let text = h.text();
    let interesting = h.ops.iter().any(|o| !matches!(o, Op::Reserve(_)));
    rec.case(hash_bytes(text.as_bytes()), interesting);

    // model pass
    let mut model = Model::new(&h.ctor);
    let initial = model.out.len();
    let mut steps = Vec::new();
    let mut lens = Vec::new();
    let mut explicits = Vec::new();
    let mut dead = false;
    for op in &h.ops {
        let s = if dead { Step::MustFail } else { model.apply(op) };
        if s == Step::MustFail {
            dead = true;
        }
        steps.push(s);
        lens.push(model.out.len());
        explicits.push(model.explicit);
    }
    let expect = if dead { BuildExpect::MustFail } else { model.build() };
    // oracle-side classes of the history
    if let Some(pos) = h.ops.iter().position(|o| matches!(o, Op::SetLength(_))) {
        let wrote_before = h.ops[..pos].iter().any(|o| !matches!(o, Op::Reserve(_) | Op::SetLength(_)));
        rec.class(if wrote_before { "oracle:set_length-after-first-write" } else { "oracle:set_length-before-first-write" }, || text.chars().take(200).collect());
    }
    if !dead {
        let p = model.payload_len();
        rec.class(
            match (model.explicit.is_some(), p) {
                (true, p) if p > MAX_PAYLOAD => "oracle:explicit-length,payload>65535",
                (true, _) => "oracle:explicit-length",
                (false, p) if p > MAX_PAYLOAD => "oracle:no-explicit,payload>65535",
                (false, p) if p == MAX_PAYLOAD => "oracle:no-explicit,payload=65535",
                (false, _) => "oracle:no-explicit,payload<65535",
            },
            || text.chars().take(200).collect(),
        );
    } else {
        rec.class("oracle:single-value>65535", || text.chars().take(200).collect());
    }

    // implementation pass, with state comparison after every call when the hook is compiled in
    let mut divergence: Option<(usize, String, bool)> = None; // (call, what, is_length_state)
    let mut states_seen = 0u64;
    let mut on_step = |i: usize, st: &Observed| {
        states_seen += 1;
        if divergence.is_some() || steps[i] == Step::MustFail {
            return;
        }
        if st.1 != explicits[i] {
            divergence = Some((i, format!("explicit length in force: builder {:?}, model {:?}", st.1, explicits[i]), true));
            return;
        }
        match &st.0 {
            None => {
                if lens[i] != initial {
                    divergence = Some((i, format!("builder has no buffer yet but {} payload bytes were written", lens[i] - initial), false));
                }
            }
            Some(buf) => {
                if buf.len() != lens[i] || buf[..14] != model.out[..14] || buf[16..] != model.out[16..lens[i]] {
                    divergence = Some((i, format!("buffer after the call differs from the model: {}", first_diff(buf, &model.out[..lens[i].min(model.out.len())])), false));
                }
            }
        }
    };
    let out = exec(h, variant, usize::MAX, &mut on_step);
    rec.events(h.ops.len() as u64 + 2);
    if states_seen > 0 {
        rec.class_n("hook:states-compared-with-model", states_seen, || text.chars().take(200).collect());
    }

    let viol = |rec: &mut Recorder, rule: &str, detail: String| {
        rec.violation(rule, format!("hist:{}", text), h.skeleton(), format!("{}: {} | history: {}", rule, detail, text.chars().take(600).collect::<String>()));
    };

    if let Some((i, what, is_len)) = &divergence {
        if *is_len && which == Which::C09 {
            viol(rec, "state-diverges:length", format!("after call #{} ({}): {}", i, h.ops[*i].kind(), what));
        } else if !*is_len && which == Which::C10 {
            viol(rec, "state-diverges:buffer", format!("after call #{} ({}): {}", i, h.ops[*i].kind(), what));
        }
    }

    match &out {
        Exec::Panic(m) => viol(rec, "panic", m.clone()),
        Exec::FailedAt(i, err) => {
            let cls = if *i < h.ops.len() {
                match steps[*i] {
                    Step::MustFail => "failed:oversized-value-refused",
                    Step::Either => "failed:writer-full(either allowed)",
                    Step::Ok => "failed:unexpectedly(not demanded by this property; C07/C20 demand success)",
                }
            } else {
                match &expect {
                    BuildExpect::MustFail => "failed:build-refused-overlong",
                    BuildExpect::Bytes(_) => "failed:build-unexpectedly(not demanded by this property; C07 demands success)",
                }
            };
            rec.class(cls, || format!("{} -> {}", text.chars().take(160).collect::<String>(), err));
            // a failure earlier than a MustFail step is fine; nothing else to judge
            if which == Which::C09 {
                // an oversized value must be refused: if the failure came *after* a MustFail step
                // succeeded, that step was wrongly accepted
                if let Some(j) = steps.iter().position(|s| *s == Step::MustFail) {
                    if j < *i {
                        viol(rec, "oversized-accepted", format!("call #{} ({}) carries a single value longer than 65535 bytes and succeeded", j, h.ops[j].kind()));
                    }
                }
            }
        }
        Exec::Built(bytes) => {
            rec.class("built", || text.chars().take(200).collect());
            if which == Which::C09 {
                if let Some(j) = steps.iter().position(|s| *s == Step::MustFail) {
                    viol(rec, "oversized-accepted", format!("call #{} ({}) carries a single value longer than 65535 bytes and succeeded", j, h.ops[j].kind()));
                } else if bytes.len() < 16 {
                    viol(rec, "length-field", format!("built output has only {} bytes", bytes.len()));
                } else {
                    let actual = bytes.len() - 16;
                    let field = u16::from_be_bytes([bytes[14], bytes[15]]);
                    match model.explicit {
                        Some(v) => {
                            if field != v {
                                viol(rec, "length-field", format!("explicit length in force at build is {}, length field says {}", v, field));
                            }
                        }
                        None => {
                            if actual > MAX_PAYLOAD {
                                viol(rec, "overlong-built", format!("no explicit length, {} payload bytes, build succeeded with length field {}", actual, field));
                            } else if field as usize != actual {
                                viol(rec, "length-field", format!("no explicit length in force, {} bytes follow the fixed part, length field says {}", actual, field));
                            }
                        }
                    }
                }
            } else if !dead {
                match &expect {
                    BuildExpect::Bytes(want) => {
                        if !same_except_length(bytes, want) {
                            viol(rec, "output-differs", format!("built bytes differ from the reference encoding of the history ({}); got {} want {}", first_diff(bytes, want), show(&bytes[..bytes.len().min(48)], 48), show(&want[..want.len().min(48)], 48)));
                        }
                    }
                    BuildExpect::MustFail => {} // C09's subject
                }
            }
        }
    }

    // C10: metamorphic rewrites of the same history must give the same bytes
    if which == Which::C10 {
        if let Exec::Built(bytes) = &out {
            let variants: [(&str, History); 4] = [
                ("reservations-stripped", strip_reservations(h)),
                ("batches-flattened", flatten_batches(h)),
                ("writes-batched", group_writes(h)),
                ("tlv-encoders-permuted", permute_tlv_encoders(h)),
            ];
            for (name, hv) in variants.iter() {
                if hv == h {
                    continue;
                }
                let o2 = crate::hist::exec_plain(hv, variant + 1);
                rec.events(hv.ops.len() as u64 + 2);
                match o2 {
                    Exec::Built(b2) => {
                        rec.class(&format!("metamorphic:{}|same-output-checked", name), || hv.text().chars().take(200).collect());
                        if b2 != *bytes {
                            viol(rec, &format!("metamorphic:{}", name), format!("rewritten history {} gives different bytes ({})", hv.text().chars().take(300).collect::<String>(), first_diff(bytes, &b2)));
                        }
                    }
                    Exec::FailedAt(..) => {
                        // only legitimate in the writer-full zone (a batch may stop where single writes did not)
                        if model.out.len() <= WRITER_LIMIT {
                            viol(rec, &format!("metamorphic:{}", name), format!("original history builds, rewritten history {} fails", hv.text().chars().take(300).collect::<String>()));
                        }
                    }
                    Exec::Panic(m) => viol(rec, "panic", m),
                }
            }
            // boundary-only formulation (no hook): build every prefix of a small history
            if h.ops.len() <= 8 && model.out.len() < 4096 && hash_bytes(text.as_bytes()) % 4 == 0 {
                for upto in 0..h.ops.len() {
                    let mut m2 = Model::new(&h.ctor);
                    for op in &h.ops[..upto] {
                        m2.apply(op);
                    }
                    if let (Exec::Built(b), BuildExpect::Bytes(w)) = (exec(h, variant, upto, &mut |_, _| {}), m2.build()) {
                        rec.events(upto as u64 + 2);
                        if !same_except_length(&b, &w) {
                            viol(rec, "prefix-output-differs", format!("building after the first {} calls: {}", upto, first_diff(&b, &w)));
                        }
                    }
                }
                rec.class("prefix-builds-checked", || text.chars().take(200).collect());
            }
        }
    }
}

/// One case in four is followed, on the same thread, by related histories (same constructor
/// arguments, other explicit lengths, a failing batch) and then by itself again.
fn run_siblings(h: &History, idx: u64, rec: &mut Recorder, which: Which) {
    if spec::engine::small() || !spec::engine::with_history(idx, 4) || h.ops.iter().any(|o| matches!(o, Op::Write(v) if v.encode().map(|e| e.len()).unwrap_or(0) > 5000)) {
        return;
    }
    let mut rng = Rng::new(idx ^ 0x51B);
    for s in history_siblings(h, &mut rng) {
        judge(&s, idx, rec, which);
    }
}

fn hist_streams(tier: Tier) -> Vec<StreamSpec> {
    vec![
        exhaustive("hist-short", short_history_count(tier.n(2, 4, 5) as u32)),
        stream("hist-rand", tier.n(100, 1_000_000, 20_000_000)),
        stream("hist-boundary", tier.n(5, 40_000, 1_000_000)),
        stream("hist-chain", tier.n(5, 10_000, 500_000)),
        stream("hist-overfull", tier.n(2, 3_000, 100_000)),
        if tier == Tier::Miri { stream("hist-lens-s", 20) } else { exhaustive("hist-lens", lens_history_count()) },
        exhaustive("calling-context", 2),
    ]
}

fn hist_case(stream_name: &str, idx: u64, seed: u64) -> History {
    let mut rng = Rng::for_case(seed, stream_id(stream_name), idx);
    let mut h = hist_case_plain(stream_name, idx, &mut rng);
    if matches!(stream_name, "hist-rand" | "hist-boundary" | "hist-overfull" | "hist-lens") && rng.chance(1, 4) {
        decorate_history(&mut h, &mut rng);
    }
    h
}

fn hist_case_plain(stream_name: &str, idx: u64, rng: &mut Rng) -> History {
    let mut rng = rng.clone();
    match stream_name {
        "hist-short" => short_history(idx),
        "hist-boundary" => boundary_history(&mut rng),
        "hist-chain" => chain_history(&mut rng),
        "hist-overfull" => overfull_history(&mut rng),
        "hist-lens" => lens_history(idx, &mut rng),
        "hist-lens-s" => {
            let i = rng.below(300 * LENS_KINDS);
            lens_history(i, &mut rng)
        }
        _ => rand_history(&mut rng),
    }
}

const FLOOR: [&str; 8] = [
    "oracle:set_length-after-first-write",
    "oracle:set_length-before-first-write",
    "oracle:explicit-length",
    "oracle:no-explicit,payload>65535",
    "oracle:no-explicit,payload=65535",
    "oracle:no-explicit,payload<65535",
    "oracle:single-value>65535",
    "oracle:explicit-length,payload>65535",
];

impl Monitor for C09 {
    fn id(&self) -> &'static str {
        "C09"
    }
    fn rule(&self) -> &'static str {
        "cases = builder call histories: all sequences of up to 4 calls (5 in thorough) over an 11-call alphabet {set_length(Some a), set_length(Some b), set_length(None), write u8, write 65535-byte slice, write_tlv, reserve_capacity, write addresses, write_payloads[2], write empty slice, write_payloads[]} from both constructors, random histories of 0-15 calls over every payload kind with forced set_length placements (before the first write, between writes, last before build, repeated, Some then None), histories whose payload total lands on 65535-3..65535+3, and long chains; each call is an event recorded with its Ok/Err, the build output's length field is judged against the explicit length in force / the actual size, oversized single values must be refused; with the hook the builder's explicit-length state is compared with the model after every call; non-trivial = the history contains a write or set_length; distinct = distinct histories"
    }
    fn streams(&self, tier: Tier) -> Vec<StreamSpec> {
        hist_streams(tier)
    }
    fn run_case(&self, stream: &str, idx: u64, seed: u64, rec: &mut Recorder) {

        if stream == "calling-context" {
            let _ = (idx, seed);
            if !spec::engine::layer().starts_with("miri") {
                crate::adapt::judge_context(&["C10"], rec);
            }
            return;
        }
        let h = hist_case(stream, idx, seed);
        judge(&h, idx, rec, Which::C09);
        run_siblings(&h, idx, rec, Which::C09);
    }
    fn floor(&self, tier: Tier) -> Vec<&'static str> {
        if tier == Tier::Miri {
            return vec!["oracle:set_length-after-first-write"];
        }
        FLOOR.to_vec()
    }
    fn replay(&self, case: &str, rec: &mut Recorder) {
        if let Some(h) = case.strip_prefix("hist:").and_then(History::parse) {
            for variant in 0..4 {
                judge(&h, variant, rec, Which::C09);
            }
        }
    }
    fn assumptions(&self) -> Vec<&'static str> {
        vec!["spec::build::Model is a faithful reading of the C09/C10 statements", "whether a write succeeds once the buffer already exceeds 16+65535 bytes is left open (either outcome accepted)"]
    }
}

impl Monitor for C10 {
    fn id(&self) -> &'static str {
        "C10"
    }
    fn rule(&self) -> &'static str {
        "cases = the same builder call histories as C09 (exhaustive short histories, random histories over every payload kind and both constructors, boundary totals, chains of up to 200 small writes); the built bytes are compared with the reference encoder run over the same history (signature, control bytes, address block, payload encodings in call order; the length field itself is C09's), and each history is re-executed with reservations stripped, batches flattened, single writes batched and TLV encoders permuted, which must give identical bytes; with the hook the builder's buffer is compared with the model after every call, without it every prefix of small histories is built; non-trivial = the history contains a write or set_length; distinct = distinct histories"
    }
    fn streams(&self, tier: Tier) -> Vec<StreamSpec> {
        hist_streams(tier)
    }
    fn run_case(&self, stream: &str, idx: u64, seed: u64, rec: &mut Recorder) {

        if stream == "calling-context" {
            let _ = (idx, seed);
            if !spec::engine::layer().starts_with("miri") {
                crate::adapt::judge_context(&["C10"], rec);
            }
            return;
        }
        let h = hist_case(stream, idx, seed);
        judge(&h, idx, rec, Which::C10);
        run_siblings(&h, idx, rec, Which::C10);
    }
    fn floor(&self, tier: Tier) -> Vec<&'static str> {
        if tier == Tier::Miri {
            return vec!["oracle:no-explicit,payload<65535"];
        }
        FLOOR.to_vec()
    }
    fn replay(&self, case: &str, rec: &mut Recorder) {
        if let Some(h) = case.strip_prefix("hist:").and_then(History::parse) {
            for variant in 0..4 {
                judge(&h, variant, rec, Which::C10);
            }
        }
    }
    fn assumptions(&self) -> Vec<&'static str> {
        vec!["spec::build::Model is a faithful reading of the C09/C10 statements", "success of a history is not demanded here (C07/C20 demand it where the statement does)"]
    }
}
