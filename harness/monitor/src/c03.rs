//! C03 — parsing, accessors and iteration never panic or hang on any input.
//! Monitor: every public call reachable from a parse result runs inside catch_unwind; a panic
//! (including an arithmetic-overflow panic in the overflow-checked build, or a Miri/ASan report
//! in those layers) is the violation.  TLV iteration is step-bounded; hangs are caught by the
//! engine watchdog and confirmed by the driver under a CPU-time limit.

use crate::adapt::*;
use ppp::{v1, v2, HeaderResult, PartialResult};
use spec::engine::{Monitor, StreamSpec, Tier};
use spec::json::show;
use spec::record::{skeleton_text, Recorder};
use spec::rng::hash_bytes;
use spec::v1gen::{v1_case, v1_streams};
use spec::v2::{tlv_case, tlv_streams, v2_case, v2_streams};
use std::error::Error;
use std::fmt::Write;

pub struct C03;

/// Calls every accessor / formatter / copy of an accepted v1 header. Returns the number of calls.
pub fn exercise_v1(h: &v1::Header<'_>) -> u64 {
    let mut sink = String::new();
    let _ = h.protocol().len();
    let _ = h.addresses_str().len();
    let _ = write!(sink, "{}", h);
    let _ = write!(sink, "{:?}", h);
    let o = h.to_owned();
    let _ = o.protocol().len();
    let _ = o.addresses_str().len();
    let c = h.clone();
    let _ = c == *h && o == *h;
    let _ = write!(sink, "{}{:?}", h.addresses, h.addresses);
    let _ = h.addresses.protocol();
    // less travelled surface: clone_from in every borrowed / owned combination, pretty Debug,
    // format specs with flags, a sink that formats while it is being written to (every fourth
    // call: these cost ten times the rest)
    if !every_fourth() {
        return 12;
    }
    let mut slot = o.clone();
    slot.clone_from(h);
    let _ = slot.protocol().len() + slot.addresses_str().len();
    let mut slot = OTHER_V1.with(|x| x.clone());
    slot.clone_from(&o);
    let _ = slot.protocol().len() + slot.addresses_str().len();
    let _ = slot == o;
    sink.clear();
    let _ = write!(sink, "{:#?}{:>4}{:<120}{:+}{:08}{:.3}{:^9.2}", h, h.addresses, h.addresses, h.addresses, h.addresses, h.addresses, h);
    // Debug honours format specs too (a hand-written impl may pad or truncate by hand)
    sink.clear();
    let _ = write!(sink, "{:3?}{:>90?}{:#12?}{:08?}{:.2?}{:<1?}{:^200.1?}", h, h, h.addresses, h.addresses, h.addresses, h, h.addresses);
    let mut re = Reentrant { inner: String::new(), addr: h.addresses, depth: 0 };
    let _ = write!(re, "{}", h.addresses);
    let _ = write!(re, "{}", h);
    20
}

thread_local! {
    static TURN: std::cell::Cell<u32> = const { std::cell::Cell::new(0) };
}

/// true on every fourth call of a thread
fn every_fourth() -> bool {
    TURN.with(|t| {
        let n = t.get().wrapping_add(1);
        t.set(n);
        n % 4 == 0
    })
}

thread_local! {
    /// an owned v1 header of another kind, the target of `clone_from`
    pub static OTHER_V1: v1::Header<'static> = v1::Header::try_from("PROXY TCP4 9.8.7.6 5.4.3.2 10 20\r\n").map(|h| h.to_owned()).unwrap_or_else(|_| v1::Header::new("PROXY UNKNOWN\r\n", v1::Addresses::Unknown).to_owned());
}

/// A sink whose `write_str` itself formats an address value (a logger that decorates each
/// chunk, say): formatting must not hold per-thread state across calls into the sink.
pub struct Reentrant {
    pub inner: String,
    pub addr: v1::Addresses,
    pub depth: u32,
}
impl Write for Reentrant {
    fn write_str(&mut self, s: &str) -> std::fmt::Result {
        if self.depth < 1 {
            self.depth += 1;
            let t = self.addr.to_string();
            let mut nested = Reentrant { inner: String::new(), addr: self.addr, depth: self.depth };
            let _ = write!(nested, "{}", self.addr);
            self.depth -= 1;
            self.inner.push_str(&t[..t.len().min(1)]);
        }
        self.inner.push_str(s);
        Ok(())
    }
}

pub fn exercise_v1_err(e: &v1::ParseError) -> u64 {
    let mut sink = String::new();
    let _ = write!(sink, "{}{:?}", e, e);
    let _ = write!(sink, "{:2?}{:>80?}{:#3?}{:.1?}{:>70}{:.2}", e, e, e, e, e, e);
    let _ = e.source().map(|s| s.to_string());
    let _ = e.is_incomplete() == !e.is_complete();
    let _ = e == e;
    5
}

pub fn exercise_v1b_err(e: &v1::BinaryParseError) -> u64 {
    let mut sink = String::new();
    let _ = write!(sink, "{}{:?}", e, e);
    let _ = write!(sink, "{:2?}{:>80?}{:#3?}{:.1?}{:>70}{:.2}", e, e, e, e, e, e);
    let _ = e.source().map(|s| s.to_string());
    let _ = e.is_incomplete() == !e.is_complete();
    let _ = e == e;
    5
}

/// Full iteration of a TLV section with all item accessors; Err(items) if the step bound is hit.
pub fn exercise_tlvs(t: v2::TypeLengthValues<'_>) -> Result<u64, u64> {
    let n = t.as_bytes().len() as u64;
    let bound = n / 3 + 1;
    let mut calls = 3;
    let _ = t.len();
    let _ = t.is_empty();
    let mut sink = String::new();
    let _ = write!(sink, "{:?}", t);
    let mut items = 0u64;
    let mut it = t;
    while let Some(item) = it.next() {
        items += 1;
        calls += 1;
        if items > bound {
            return Err(items);
        }
        match item {
            Ok(tlv) => {
                let _ = tlv.len();
                let _ = tlv.is_empty();
                let o = tlv.to_owned();
                let _ = o == tlv;
                if tlv.len() < 64 {
                    sink.clear();
                    let _ = write!(sink, "{:?}", tlv);
                    let _ = write!(sink, "{:3?}{:>300?}{:.1?}", tlv, tlv, tlv);
                }
                calls += 4;
            }
            Err(e) => {
                sink.clear();
                let _ = write!(sink, "{}{:?}", e, e);
                let _ = write!(sink, "{:2?}{:>80?}{:#3?}{:.1?}{:>70}{:.2}", e, e, e, e, e, e);
                let _ = e.is_incomplete();
                calls += 3;
            }
        }
    }
    // fused: a few more calls must keep returning None (not judged here, only must not panic)
    for _ in 0..3 {
        let _ = it.next();
    }
    // the rest of the Iterator surface, on fresh copies and on a partly consumed copy: whatever
    // these return (C11 judges that), they must return - also for absurd arguments
    // (iteration is known to be finite at this point, so the consuming adapters terminate);
    // long sections take this part one time in sixteen, short ones every other time
    if (n > 2048 && (n + items) % 16 != 0) || (n <= 2048 && !every_fourth() && !every_fourth()) {
        return Ok(calls + 3);
    }
    sink.clear();
    if n <= 2048 {
        let _ = write!(sink, "{:#?}", t);
    }
    for n in [0usize, 1, 2, 7, usize::MAX / 3, usize::MAX / 3 + 1, usize::MAX / 2 + 1, usize::MAX - 1, usize::MAX] {
        let mut c = t;
        let _ = c.nth(n);
        let _ = c.next();
        let mut c = t;
        let _ = c.next();
        let _ = c.nth(n);
        calls += 4;
    }
    let _ = t.size_hint();
    let _ = t.count();
    let _ = t.last();
    let _ = t.fold(0usize, |a, r| a + r.map(|x| x.len()).unwrap_or(1));
    let _ = t.skip(usize::MAX).next();
    let _ = t.skip(2).count();
    let _ = t.step_by(usize::MAX).count();
    let _ = t.step_by(2).last();
    let _ = t.take(1).count() + t.skip_while(|r| r.is_ok()).count();
    let _ = t.filter_map(|r| r.ok()).map(|x| x.len()).max();
    let mut part = t;
    let _ = part.next();
    let _ = part.size_hint();
    let _ = part.by_ref().take(1).count();
    let _ = part.count();
    let mut part = t;
    let _ = part.next();
    let _ = part.last();
    let mut part = t;
    let _ = part.next();
    part.for_each(|_| {});
    let _ = t == part && t.clone() == t;
    Ok(calls + 3 + 22)
}

pub fn exercise_v2(h: &v2::Header<'_>) -> Result<u64, u64> {
    let mut sink = String::new();
    let _ = h.length();
    let _ = h.len();
    let _ = h.is_empty();
    let _ = h.address_family();
    let _ = h.address_bytes().len();
    let _ = h.tlv_bytes().len();
    let _ = h.as_bytes().len();
    let _ = write!(sink, "{}", h);
    if h.len() < 200 {
        let _ = write!(sink, "{:?}", h);
    }
    let _ = h.addresses.len();
    let _ = h.addresses.is_empty();
    sink.clear();
    let _ = write!(sink, "{:?}", h.addresses);
    if h.len() < 600 {
        let _ = write!(sink, "{:?}", h.version);
        let _ = write!(sink, "{:?}{:?}{:?}", h.command, h.protocol, h.address_family());
    }
    let _ = h.addresses.address_family().byte_length();
    let _ = u16::from(h.address_family());
    let o = h.to_owned();
    let _ = o == *h;
    let _ = o.tlv_bytes().len() + o.address_bytes().len();
    let c = h.clone();
    let _ = c == *h;
    if !every_fourth() {
        let a = exercise_tlvs(h.tlvs())?;
        return Ok(18 + a);
    }
    let mut slot = OTHER_V2.with(|x| x.clone());
    slot.clone_from(h);
    let _ = slot.length() + slot.address_bytes().len() + slot.tlv_bytes().len();
    let _ = slot == *h;
    let mut slot = OTHER_V2.with(|x| x.clone());
    slot.clone_from(&o);
    let _ = slot.address_family();
    if h.len() < 200 {
        sink.clear();
        let _ = write!(sink, "{:#?}{:>300}{:+}{:.2}", h, h, h, h);
        sink.clear();
        let _ = write!(sink, "{:3?}{:>90?}{:#12?}{:08?}{:.2?}{:<1?}{:2?}{:1?}{:1?}", h.addresses, h.addresses, h.addresses, h.addresses, h.addresses, h.command, h.protocol, h.version, h.address_family());
        if h.len() < 300 {
            let _ = write!(sink, "{:3?}{:>700?}{:.2?}", h, h, h);
        }
        let _ = write!(sink, "{:?}{:#?}", h.addresses, h.addresses);
    }
    let a = exercise_tlvs(h.tlvs())?;
    let b = exercise_tlvs(o.tlvs())?;
    Ok(26 + a + b)
}

thread_local! {
    /// an owned v2 header of another family, the target of `clone_from`
    pub static OTHER_V2: v2::Header<'static> = {
        let mut b = spec::v2::SIG.to_vec();
        b.extend_from_slice(&[0x21, 0x11, 0, 15, 1, 2, 3, 4, 5, 6, 7, 8, 0, 80, 1, 187, 4, 0, 0]);
        // the owned copy holds its own bytes; nothing is leaked (the AddressSanitizer layer runs
        // with leak detection on)
        let owned = v2::Header::try_from(b.as_slice()).map(|h| h.to_owned()).expect("fixed valid header");
        owned
    };
}

pub fn exercise_v2_err(e: &v2::ParseError) -> u64 {
    let mut sink = String::new();
    let _ = write!(sink, "{}{:?}", e, e);
    let _ = write!(sink, "{:2?}{:>80?}{:#3?}{:.1?}{:>70}{:.2}", e, e, e, e, e, e);
    let _ = e.source().map(|s| s.to_string());
    let _ = e.is_incomplete() == !e.is_complete();
    let _ = e == e;
    5
}

fn report(rec: &mut Recorder, call: &str, kind: &str, input: &[u8], msg: String) {
    rec.violation(
        &format!("panic:{}", call),
        enc_case(kind, &input[..input.len().min(70_100)]),
        skeleton_text(input),
        format!("{} panicked on {:?}: {}", call, show(input, 160), msg),
    );
}

fn step_bound(rec: &mut Recorder, call: &str, kind: &str, input: &[u8], items: u64) {
    rec.violation(
        &format!("tlv-step-bound:{}", call),
        enc_case(kind, &input[..input.len().min(70_100)]),
        skeleton_text(input),
        format!("{}: TLV iteration yielded {} items, more than n/3+1", call, items),
    );
}

/// All calls on one byte input through every byte entry point. `kind` tags the replay case.
pub fn drive_bytes(input: &[u8], kind: &str, rec: &mut Recorder) {
    // v1 from bytes
    match guard(|| match v1::Header::try_from(input) {
        Ok(h) => ("Ok", 1 + exercise_v1(&h)),
        Err(e) => ("Err", 1 + exercise_v1b_err(&e)),
    }) {
        Ok((c, n)) => {
            rec.events(n);
            rec.class(if c == "Ok" { "v1-bytes|Ok" } else { "v1-bytes|Err" }, || show(input, 100));
        }
        Err(m) => {
            rec.event();
            report(rec, "v1::Header::try_from(&[u8]) + accessors", kind, input, m)
        }
    }
    // v2
    match guard(|| match v2::Header::try_from(input) {
        Ok(h) => exercise_v2(&h).map(|n| ("Ok", n + 1)),
        Err(e) => Ok(("Err", 1 + exercise_v2_err(&e))),
    }) {
        Ok(Ok((c, n))) => {
            rec.events(n);
            rec.class(if c == "Ok" { "v2|Ok" } else { "v2|Err" }, || show(input, 60));
        }
        Ok(Err(items)) => {
            rec.event();
            step_bound(rec, "v2::Header::tlvs", kind, input, items)
        }
        Err(m) => {
            rec.event();
            report(rec, "v2::Header::try_from + accessors", kind, input, m)
        }
    }
    // auto
    match guard(|| {
        let r = HeaderResult::parse(input);
        let _ = r.is_incomplete() == !r.is_complete();
        let _ = r == r;
        let mut sink = String::new();
        if input.len() < 200 {
            let _ = write!(sink, "{:?}", r);
        }
        match &r {
            HeaderResult::V1(Ok(h)) => Ok(("V1-Ok", 3 + exercise_v1(h))),
            HeaderResult::V1(Err(e)) => Ok(("V1-Err", 3 + exercise_v1b_err(e))),
            HeaderResult::V2(Ok(h)) => exercise_v2(h).map(|n| ("V2-Ok", n + 3)),
            HeaderResult::V2(Err(e)) => Ok(("V2-Err", 3 + exercise_v2_err(e))),
        }
    }) {
        Ok(Ok((c, n))) => {
            rec.events(n);
            rec.class(&format!("auto|{}", c), || show(input, 60));
        }
        Ok(Err(items)) => {
            rec.event();
            step_bound(rec, "HeaderResult::parse -> tlvs", kind, input, items)
        }
        Err(m) => {
            rec.event();
            report(rec, "HeaderResult::parse + accessors", kind, input, m)
        }
    }
}

pub fn drive_str(s: &str, rec: &mut Recorder) {
    let input = s.as_bytes();
    match guard(|| match v1::Header::try_from(s) {
        Ok(h) => ("Ok", 1 + exercise_v1(&h)),
        Err(e) => ("Err", 1 + exercise_v1_err(&e)),
    }) {
        Ok((c, n)) => {
            rec.events(n);
            rec.class(if c == "Ok" { "v1-str|Ok" } else { "v1-str|Err" }, || show(input, 100));
        }
        Err(m) => {
            rec.event();
            report(rec, "v1::Header::try_from(&str) + accessors", "v1", input, m)
        }
    }
    match guard(|| match s.parse::<v1::Header<'static>>() {
        Ok(h) => 1 + exercise_v1(&h),
        Err(e) => 1 + exercise_v1_err(&e),
    }) {
        Ok(n) => rec.events(n),
        Err(m) => {
            rec.event();
            report(rec, "str::parse::<v1::Header>", "v1", input, m)
        }
    }
    match guard(|| match s.parse::<v1::Addresses>() {
        Ok(a) => {
            let _ = a.to_string();
            2
        }
        Err(e) => 1 + exercise_v1_err(&e),
    }) {
        Ok(n) => rec.events(n),
        Err(m) => {
            rec.event();
            report(rec, "str::parse::<v1::Addresses>", "v1", input, m)
        }
    }
}

pub fn drive_tlv(section: &[u8], rec: &mut Recorder) {
    match guard(|| exercise_tlvs(v2::TypeLengthValues::from(section))) {
        Ok(Ok(n)) => {
            rec.events(n);
            rec.class("tlv-iter|returned", || show(section, 40));
        }
        Ok(Err(items)) => {
            rec.event();
            step_bound(rec, "TypeLengthValues::from(&[u8])", "tlv", section, items)
        }
        Err(m) => {
            rec.event();
            report(rec, "TypeLengthValues iteration", "tlv", section, m)
        }
    }
}

pub fn drive(input: &[u8], kind: &str, rec: &mut Recorder) {
    rec.case(hash_bytes(input), input.len() >= 3);
    if kind == "tlv" {
        rec.class("input:tlv-section", || show(input, 40));
        drive_tlv(input, rec);
        return;
    }
    // oracle-side classification of the input (for the coverage floor; independent of ppp)
    match spec::v1::v1_ref(input) {
        spec::v1::V1Ref::Accept(_) => rec.class("oracle:v1-accept", || show(input, 100)),
        spec::v1::V1Ref::Reject(_) => rec.class("oracle:v1-reject", || show(input, 100)),
    }
    let o2 = spec::v2::v2_ref(input);
    if o2.is_ok() {
        rec.class("oracle:v2-ok", || show(input, 48));
    } else if !matches!(o2, spec::v2::V2Ref::Prefix) {
        rec.class("oracle:v2-reject-after-signature", || show(input, 48));
    }
    drive_bytes(input, kind, rec);
    if let Ok(s) = std::str::from_utf8(input) {
        if s.is_ascii() {
            rec.class("str-input|ascii", || show(input, 60));
        } else {
            // where does the first non-ASCII character sit relative to the first CR?
            let cr = s.find('\r');
            let cls = match cr {
                None => "str-input|non-ascii,no-cr",
                Some(i) => {
                    if !s.is_char_boundary((i + 2).min(s.len())) {
                        "str-input|window-ends-inside-char"
                    } else if s[..i].is_ascii() {
                        "str-input|non-ascii-after-window"
                    } else {
                        "str-input|non-ascii-in-line"
                    }
                }
            };
            rec.class(cls, || show(input, 60));
        }
        drive_str(s, rec);
    } else {
        rec.class("bytes-input|invalid-utf8", || show(input, 60));
    }
    // any byte slice is also a TLV section
    if input.len() < 400 {
        drive_tlv(input, rec);
    }
}

impl Monitor for C03 {
    fn id(&self) -> &'static str {
        "C03"
    }
    fn rule(&self) -> &'static str {
        "cases = the union of the v1, v2 and TLV workloads (including every insertion offset of 2-/3-/4-byte characters into 40 line templates, all TLV sections over a 5-symbol alphabet up to 8 bytes, declared lengths against every buffer relation); every case goes through all byte entry points, the &str / FromStr entry points when UTF-8, and TLV iteration; on every result all accessors, formatters, to_owned/clone/eq run; each call is inside catch_unwind; non-trivial = input of at least 3 bytes; distinct = distinct inputs (64-bit hash). The same workload runs in the release and the overflow-checked build (and under Miri / ASan in the thorough tier)"
    }
    fn streams(&self, tier: Tier) -> Vec<StreamSpec> {
        let mut s = v1_streams(tier, 4_000);
        s.extend(v2_streams(tier, 4_000).into_iter().filter(|s| s.name != "v2-ctl"));
        if tier != Tier::Miri {
            s.push(spec::engine::stream("v2-ctl-s", tier.n(0, 400_000, 20_000_000)));
        }
        s.extend(tlv_streams(tier, 4_000));
        s.push(spec::engine::exhaustive("calling-context", 2));
        spec::engine::sample_sweeps(s, tier, 3, 3)
    }
    fn run_case(&self, stream: &str, idx: u64, seed: u64, rec: &mut Recorder) {
        if stream == "calling-context" {
            // the same calls from an ordinary place, a second time, and from a thread-local
            // destructor at thread exit (pure functions do not depend on where they are called)
            let _ = (idx, seed);
            if spec::engine::layer().starts_with("miri") {
                return;
            }
            crate::adapt::judge_context(&["C03", "C06", "C08", "C10", "C16", "C19", "C20"], rec);
            return;
        }
        if stream.starts_with("v1-") {
            let input = v1_case(stream, idx, seed);
            spec::sib::run_v1(&input, idx, if stream.contains("sweep") { 16 } else { 4 }, |x| drive(x, "v1", rec));
        } else if stream.starts_with("v2-") {
            crate::c02::SCRATCH.with(|b| {
                let mut b = b.borrow_mut();
                v2_case(stream, idx, seed, &mut b);
                spec::sib::run_v2(&b, idx, if stream.contains("sweep") || stream == "v2-dense" { 16 } else { 4 }, |x| drive(x, "v2", rec));
            });
        } else {
            let s = tlv_case(stream, idx, seed);
            spec::sib::run_tlv(&s, idx, 4, |x| drive(x, "tlv", rec));
        }
    }
    fn floor(&self, tier: Tier) -> Vec<&'static str> {
        let mut f = vec!["oracle:v1-accept", "oracle:v1-reject", "oracle:v2-ok", "oracle:v2-reject-after-signature", "input:tlv-section", "str-input|window-ends-inside-char"];
        if tier != Tier::Miri {
            f.extend(["str-input|non-ascii-in-line", "str-input|non-ascii-after-window", "bytes-input|invalid-utf8"]);
        }
        f
    }
    fn replay(&self, case: &str, rec: &mut Recorder) {
        if let Some((k, bytes)) = dec_case(case) {
            drive(&bytes, k, rec);
        }
    }
    fn assumptions(&self) -> Vec<&'static str> {
        vec![
            "a hang is only suspected after a call stays in flight for 20 s and only reported after the isolated call burns 60 s of CPU",
            "Miri / ASan layers run reduced workloads; a clean run says nothing beyond the cases executed",
        ]
    }
}
