//! C05 — streaming: every proper prefix of an accepted header is reported incomplete.
//! Prefix sweep over every cut point + a simulated receiver (the loop of examples/server.rs)
//! whose verdict trace must be `incomplete* ; Ok(header)` for every split of the stream.

use crate::adapt::*;
use spec::engine::{stream, stream_id, Monitor, StreamSpec, Tier};
use spec::json::show;
use spec::record::{skeleton_text, Recorder};
use spec::rng::{hash_bytes, Rng};
use spec::v1gen::{trailers, valid_ascii_body};
use spec::v2::valid_header;

pub struct C05;

#[derive(Clone, PartialEq, Debug)]
pub enum Out {
    A(O1),
    B(O2),
    C(OA),
}

impl Out {
    pub fn is_ok(&self) -> bool {
        match self {
            Out::A(o) => o.is_ok(),
            Out::B(o) => o.is_ok(),
            Out::C(o) => o.is_ok(),
        }
    }
    pub fn flags(&self) -> Option<(bool, bool)> {
        match self {
            Out::A(o) => o.flags(),
            Out::B(o) => o.flags(),
            Out::C(o) => o.flags(),
        }
    }
    pub fn brief(&self) -> String {
        match self {
            Out::A(o) => o.class(),
            Out::B(o) => o.class(),
            Out::C(o) => o.class(),
        }
    }
}

pub const ENTRY: [&str; 4] = ["v1-bytes", "v1-str", "v2", "auto"];

pub fn parse(entry: usize, input: &[u8]) -> Option<Out> {
    Some(match entry {
        0 => Out::A(v1_bytes(input)),
        1 => Out::A(v1_str(std::str::from_utf8(input).ok()?)),
        2 => Out::B(v2_parse(input)),
        _ => Out::C(auto_parse(input)),
    })
}

/// The flag laws that hold for every result whatsoever.
pub fn check_flags(o: &Out, input: &[u8], entry: usize, rec: &mut Recorder, kind: &str) {
    if let Some((inc, comp)) = o.flags() {
        if inc == comp || (o.is_ok() && inc) {
            rec.violation(
                &format!("flags-inconsistent:{}", ENTRY[entry]),
                enc_case(kind, &input[..input.len().min(70_100)]),
                skeleton_text(input),
                format!("{} on {:?}: is_incomplete={} is_complete={} result {}", ENTRY[entry], show(input, 120), inc, comp, o.brief()),
            );
        }
    }
}

fn cuts_for(len: usize, rng: &mut Rng) -> Vec<usize> {
    if len <= 300 {
        (0..len).collect()
    } else {
        let mut v: Vec<usize> = (0..=20).collect();
        v.extend([len - 3, len - 2, len - 1, 15, 16, 17, 27, 28, 29, 51, 52, 53, 231, 232, 233]);
        for _ in 0..48 {
            v.push(rng.below(len as u64) as usize);
        }
        v.sort();
        v.dedup();
        v
    }
}

pub fn judge(h: &[u8], is_v1: bool, rec: &mut Recorder) {
    let kind = if is_v1 { "v1" } else { "v2" };
    let mut rng = Rng::new(hash_bytes(h));
    let entries: &[usize] = if is_v1 { &[0, 1, 3] } else { &[2, 3] };
    // the header must be accepted by the oracle and by the implementation (one-shot)
    let oracle_ok = if is_v1 {
        matches!(spec::v1::v1_ref(h), spec::v1::V1Ref::Accept(ref a) if a.header_len == h.len()) && h.is_ascii()
    } else {
        matches!(spec::v2::v2_ref(h), spec::v2::V2Ref::Ok { total, .. } if total == h.len())
    };
    if !oracle_ok {
        rec.case(hash_bytes(h), false);
        rec.class("skipped:not-a-complete-valid-header", || show(h, 80));
        return;
    }
    rec.class(if is_v1 { "oracle:v1-header" } else { "oracle:v2-header" }, || show(h, 80));
    let mut oneshot = Vec::new();
    for &e in entries {
        let r = parse(e, h).unwrap();
        rec.event();
        check_flags(&r, h, e, rec, kind);
        if !r.is_ok() {
            // the implementation rejects a valid header: C01/C02's finding, nothing to stream
            rec.case(hash_bytes(h), false);
            rec.class("skipped:implementation-rejects-valid-header", || show(h, 80));
            return;
        }
        oneshot.push(r);
    }
    rec.case(hash_bytes(h), true);

    // 1. prefix sweep
    for k in cuts_for(h.len(), &mut rng) {
        let p = &h[..k];
        for &e in entries {
            let r = parse(e, p).unwrap();
            rec.event();
            check_flags(&r, p, e, rec, kind);
            let inc = matches!(r.flags(), Some((true, _)));
            if !inc || r.is_ok() {
                rec.violation(
                    &format!("prefix-not-incomplete:{}", ENTRY[e]),
                    enc_case(kind, &h[..h.len().min(70_100)]),
                    if is_v1 { skeleton_text(p) } else { format!("v2-prefix-{}", if k < 16 { "fixed-part" } else { "payload" }) },
                    format!("{}: prefix of {} bytes {:?} of accepted header {:?} gives {} (must be flagged incomplete)", ENTRY[e], k, show(p, 120), show(h, 120), r.brief()),
                );
            } else {
                rec.class(&format!("prefix|{}|{}", ENTRY[e], r.brief()), || show(p, 100));
            }
        }
    }

    // 1b. the same prefixes right after a *related* header was accepted on this thread (the
    //     previous connection): the header whose last port is two digits shorter, then this
    //     header's line without its CRLF; and the header itself, then each of its last prefixes
    if is_v1 && h.starts_with(b"PROXY TCP") && h.len() > 6 {
        let body = &h[..h.len() - 2];
        let digits = body.iter().rev().take_while(|b| b.is_ascii_digit()).count();
        let mut related: Vec<(Vec<u8>, usize)> = Vec::new(); // (header accepted first, prefix length of h parsed next)
        if digits >= 3 {
            let mut h1 = body[..body.len() - 2].to_vec();
            h1.extend_from_slice(b"\r\n");
            related.push((h1, body.len()));
        }
        related.push((h.to_vec(), h.len() - 1));
        related.push((h.to_vec(), h.len() - 2));
        related.push((h.to_vec(), h.len() - 3));
        for (first, k) in related {
            for &e in entries {
                let r1 = parse(e, &first).unwrap();
                let p = &h[..k];
                let r = parse(e, p).unwrap();
                rec.events(2);
                let inc = matches!(r.flags(), Some((true, _)));
                if r1.is_ok() && (!inc || r.is_ok()) {
                    rec.violation(
                        &format!("prefix-not-incomplete:{}", ENTRY[e]),
                        enc_case(kind, h),
                        format!("after-related-header|{}", skeleton_text(p)),
                        format!("{}: right after {:?} was accepted, the prefix of {} bytes {:?} of accepted header {:?} gives {} (must be flagged incomplete)", ENTRY[e], show(&first, 120), k, show(p, 120), show(h, 120), r.brief()),
                    );
                } else {
                    rec.class(&format!("prefix-after-related-header|{}", ENTRY[e]), || show(p, 100));
                }
            }
        }
    }

    // 2. receiver simulation: stream = header ++ payload, delivered in reads
    let ts = trailers();
    let payload = rng.pick(&ts).clone();
    let mut stream_bytes = h.to_vec();
    stream_bytes.extend_from_slice(&payload);
    let total = stream_bytes.len();
    let mut scripts: Vec<Vec<usize>> = Vec::new(); // cumulative buffer sizes after each read
    if total <= 300 {
        scripts.push((1..=total).collect()); // one byte at a time
    }
    for _ in 0..6 {
        let c = 1 + rng.below(total as u64 - 1) as usize;
        scripts.push(vec![c, total]); // two reads
    }
    for _ in 0..8 {
        let mut v = Vec::new();
        let mut at = 0usize;
        while at < total {
            let step = match rng.below(4) {
                0 => 1,
                1 => rng.range(1, 8) as usize,
                2 => rng.range(1, 64) as usize,
                _ => rng.range(1, total as u64) as usize,
            };
            at = (at + step).min(total);
            v.push(at);
        }
        scripts.push(v);
    }
    for script in &scripts {
        for (ei, &e) in entries.iter().enumerate() {
            if e == 1 && std::str::from_utf8(&stream_bytes).is_err() {
                continue; // the text entry point cannot be handed a non-UTF-8 payload
            }
            let mut verdict: Option<(usize, Out)> = None;
            for &n in script {
                // a text receiver only ever holds whole characters: skip cuts inside one
                let r = match parse(e, &stream_bytes[..n]) {
                    Some(r) => r,
                    None => continue,
                };
                rec.event();
                let inc = matches!(r.flags(), Some((true, _)));
                if !inc {
                    verdict = Some((n, r));
                    break;
                }
            }
            let first_enough = script
                .iter()
                .copied()
                .find(|&n| n >= h.len() && (e != 1 || std::str::from_utf8(&stream_bytes[..n]).is_ok()))
                .unwrap_or(total);
            let ok = match &verdict {
                Some((n, r)) => *n == first_enough && *r == oneshot[ei],
                None => false,
            };
            if ok {
                rec.class(&format!("receiver|{}|{} reads", ENTRY[e], if script.len() > 8 { "many".to_string() } else { script.len().to_string() }), || format!("{:?} on {}", script, show(&stream_bytes, 80)));
            } else {
                rec.violation(
                    &format!("receiver-trace:{}", ENTRY[e]),
                    enc_case(kind, &h[..h.len().min(70_100)]),
                    if is_v1 { skeleton_text(h) } else { "v2".into() },
                    format!(
                        "{}: stream {:?} delivered as cumulative sizes {:?}: receiver stopped with {:?}, expected Ok(header) exactly at {} buffered bytes",
                        ENTRY[e],
                        show(&stream_bytes, 120),
                        &script[..script.len().min(20)],
                        verdict.as_ref().map(|(n, r)| format!("{} at {} bytes", r.brief(), n)),
                        first_enough
                    ),
                );
            }
        }
    }
}

/// "`is_complete` is always the negation of `is_incomplete`": on every value that has the two
/// methods - each parser's `Result`, the bare error value inside it, the auto-detecting result,
/// and the items of TLV iteration (whose errors are `v2::ParseError` values too) - and the flags
/// of a `Result` are those of the error it holds.
fn flag_laws(x: &[u8], rec: &mut Recorder) {
    use ppp::{v1, v2, HeaderResult, PartialResult};
    let r = guard(|| {
        let mut bad: Vec<String> = Vec::new();
        let mut n = 0u64;
        let law = |what: &str, res: (bool, bool), err: Option<(bool, bool)>, ok: bool, bad: &mut Vec<String>| {
            if res.0 == res.1 || (ok && res.0) {
                bad.push(format!("{}: is_incomplete={} is_complete={}{}", what, res.0, res.1, if ok { " on a success" } else { "" }));
            }
            if let Some(e) = err {
                if e.0 == e.1 {
                    bad.push(format!("{} (error value): is_incomplete={} is_complete={}", what, e.0, e.1));
                }
                if e != res {
                    bad.push(format!("{}: the Result says {:?}, the error value it holds says {:?}", what, res, e));
                }
            }
        };
        let r = v1::Header::try_from(x);
        law("v1::Header::try_from(&[u8])", (r.is_incomplete(), r.is_complete()), r.as_ref().err().map(|e| (e.is_incomplete(), e.is_complete())), r.is_ok(), &mut bad);
        if let Err(v1::BinaryParseError::Parse(p)) = &r {
            law("v1::ParseError inside BinaryParseError", (p.is_incomplete(), p.is_complete()), None, false, &mut bad);
        }
        n += 2;
        if let Ok(s) = std::str::from_utf8(x) {
            let r = v1::Header::try_from(s);
            law("v1::Header::try_from(&str)", (r.is_incomplete(), r.is_complete()), r.as_ref().err().map(|e| (e.is_incomplete(), e.is_complete())), r.is_ok(), &mut bad);
            let r = s.parse::<v1::Addresses>();
            law("str::parse::<v1::Addresses>", (r.is_incomplete(), r.is_complete()), r.as_ref().err().map(|e| (e.is_incomplete(), e.is_complete())), r.is_ok(), &mut bad);
            n += 2;
        }
        let r = v2::Header::try_from(x);
        law("v2::Header::try_from", (r.is_incomplete(), r.is_complete()), r.as_ref().err().map(|e| (e.is_incomplete(), e.is_complete())), r.is_ok(), &mut bad);
        n += 1;
        let h = HeaderResult::parse(x);
        // method-call syntax (an inherent method of the same name would win) and the trait path
        // must be the same function
        let via_trait = (PartialResult::is_incomplete(&h), PartialResult::is_complete(&h));
        if via_trait != (h.is_incomplete(), h.is_complete()) {
            bad.push(format!("HeaderResult: method syntax says {:?}, <HeaderResult as PartialResult> says {:?}", (h.is_incomplete(), h.is_complete()), via_trait));
        }
        let r2t = (PartialResult::is_incomplete(&r), PartialResult::is_complete(&r));
        if r2t != (r.is_incomplete(), r.is_complete()) {
            bad.push(format!("v2 Result: method syntax says {:?}, the trait path says {:?}", (r.is_incomplete(), r.is_complete()), r2t));
        }
        let inner = match &h {
            HeaderResult::V1(r) => (r.is_incomplete(), r.is_complete()),
            HeaderResult::V2(r) => (r.is_incomplete(), r.is_complete()),
        };
        law("HeaderResult::parse", (h.is_incomplete(), h.is_complete()), Some(inner), matches!(&h, HeaderResult::V1(Ok(_)) | HeaderResult::V2(Ok(_))), &mut bad);
        n += 1;
        // TLV iteration over the bytes as a section, and over an accepted header's section
        let mut sections: Vec<v2::TypeLengthValues<'_>> = vec![v2::TypeLengthValues::from(&x[..x.len().min(600)])];
        if let Ok(hd) = &r {
            sections.push(hd.tlvs());
        }
        for sec in sections {
            for item in sec.take(40) {
                n += 1;
                let res = (item.is_incomplete(), item.is_complete());
                let ok = item.is_ok();
                let err = item.as_ref().err().map(|e| (e.is_incomplete(), e.is_complete()));
                law("TLV iteration item", res, err, ok, &mut bad);
            }
        }
        (bad, n)
    });
    match r {
        Ok((bad, n)) => {
            rec.events(n);
            if bad.is_empty() {
                rec.class("flag-laws|results, error values, TLV items", || show(x, 60));
            }
            for d in bad.into_iter().take(3) {
                rec.violation("flags-inconsistent:values", enc_case("any", &x[..x.len().min(4000)]), skeleton_text(&x[..x.len().min(60)]), format!("flag law broken on {:?}: {}", show(x, 100), d));
            }
        }
        Err(_) => rec.class("observed:panic(C03's subject)", || show(x, 60)),
    }
}

/// A server loop (examples/server.rs) over several connections that share ONE receive buffer:
/// per connection a stream (valid v1 / v2 header or a broken one, followed by payload) arrives in
/// scripted reads; after each read the auto-detecting parser looks at the buffer. The verdict
/// trace of a valid connection must be incomplete* ; Ok(header) at the first read that completes
/// the header; and every single verdict - valid connection or not - must equal the verdict on a
/// fresh copy of the same bytes elsewhere in memory (the parser is a function of the bytes, not
/// of what the buffer held before).
fn server_loop(idx: u64, seed: u64, rec: &mut Recorder) {
    let mut rng = Rng::for_case(seed, stream_id("c05-server"), idx);
    let mut buf: Vec<u8> = Vec::with_capacity(8192);
    let base = buf.as_ptr() as usize;
    let conns = rng.range(3, 7);
    let mut transcript: Vec<String> = Vec::new();
    let mut nontrivial = false;
    for c in 0..conns {
        // the stream of this connection
        let (stream_bytes, header_len): (Vec<u8>, Option<usize>) = match rng.below(8) {
            0..=2 => {
                let mut h = valid_ascii_body(&mut rng).into_bytes();
                h.extend_from_slice(b"\r\n");
                let n = h.len();
                let ok = matches!(spec::v1::v1_ref(&h), spec::v1::V1Ref::Accept(ref a) if a.header_len == n);
                let ts = trailers();
                let t: &Vec<u8> = rng.pick(&ts[..]);
                h.extend_from_slice(t.as_slice());
                (h, if ok { Some(n) } else { None })
            }
            3..=5 => {
                let mut b = Vec::new();
                let (vc, fp) = spec::v2::valid_ctl(rng.below(24));
                spec::v2::valid_header_budget(&mut rng, &mut b, vc, fp, Some(200));
                let n = b.len();
                let ok = matches!(spec::v2::v2_ref(&b), spec::v2::V2Ref::Ok { total, .. } if total == n);
                let ts = trailers();
                let t: &Vec<u8> = rng.pick(&ts[..]);
                b.extend_from_slice(t.as_slice());
                (b, if ok { Some(n) } else { None })
            }
            6 => {
                // a peer that leaves in the middle of a header: the stream is a proper prefix
                let mut h = valid_ascii_body(&mut rng).into_bytes();
                h.extend_from_slice(b"\r\n");
                let cut = rng.below(h.len() as u64) as usize;
                h.truncate(cut);
                (h, None)
            }
            _ => {
                let names = ["v1-field", "v1-eol", "v1-mut", "v1-len"];
                (spec::v1gen::v1_case(names[rng.below(4) as usize], idx * 8 + c, seed), None)
            }
        };
        if stream_bytes.is_empty() || stream_bytes.len() > 8000 {
            continue;
        }
        // reads
        let total = stream_bytes.len();
        let mut sizes = Vec::new();
        let mut at = 0usize;
        while at < total {
            let step = match rng.below(5) {
                0 => 1,
                1 => rng.range(1, 8) as usize,
                2 => rng.range(1, 40) as usize,
                3 => header_len.map(|n| n.saturating_sub(at).max(1)).unwrap_or(total),
                _ => rng.range(1, total as u64) as usize,
            };
            at = (at + step).min(total);
            sizes.push(at);
        }
        buf.clear();
        let mut verdict_at: Option<usize> = None;
        for &n in &sizes {
            buf.extend_from_slice(&stream_bytes[buf.len()..n]);
            debug_assert_eq!(buf.as_ptr() as usize, base);
            let r = auto_parse(&buf);
            let fresh = stream_bytes[..n].to_vec();
            let r2 = auto_parse(&fresh);
            rec.events(2);
            if r != r2 {
                rec.violation(
                    "reused-buffer-differs:auto",
                    format!("server:{}:{}", idx, seed),
                    "server-loop".into(),
                    format!("connection {} of a server loop with one receive buffer: after {} bytes {:?} the verdict is {}, on a fresh copy of the same bytes it is {}; earlier connections: {:?}", c, n, show(&buf, 100), r.class(), r2.class(), transcript),
                );
                return;
            }
            if !r.incomplete() {
                verdict_at = Some(n);
                if let Some(hl) = header_len {
                    nontrivial = true;
                    let first_enough = sizes.iter().copied().find(|&m| m >= hl).unwrap_or(total);
                    let good = r.is_ok() && n == first_enough;
                    if !good {
                        rec.violation(
                            "receiver-trace:auto",
                            format!("server:{}:{}", idx, seed),
                            "server-loop".into(),
                            format!("connection {} of a server loop: stream {:?} with a valid header of {} bytes delivered as cumulative sizes {:?}: the receiver stopped with {} at {} bytes, expected Ok(header) at {}", c, show(&stream_bytes, 100), hl, &sizes[..sizes.len().min(16)], r.class(), n, first_enough),
                        );
                        return;
                    }
                }
                break;
            }
        }
        if header_len.is_some() && verdict_at.is_none() {
            rec.violation(
                "receiver-trace:auto",
                format!("server:{}:{}", idx, seed),
                "server-loop".into(),
                format!("connection {} of a server loop: the whole stream {:?} (valid header of {:?} bytes) was delivered and the verdict is still incomplete", c, show(&stream_bytes, 100), header_len),
            );
            return;
        }
        transcript.push(format!("{}{} bytes in {} reads -> {:?}", if header_len.is_some() { "valid " } else { "" }, total, sizes.len(), verdict_at));
        if transcript.len() > 6 {
            transcript.remove(0);
        }
    }
    rec.case(spec::rng::mix(idx ^ seed.rotate_left(17)), nontrivial);
    rec.class("server-loop|connections-sharing-one-buffer", || format!("{:?}", transcript));
}

impl Monitor for C05 {
    fn id(&self) -> &'static str {
        "C05"
    }
    fn rule(&self) -> &'static str {
        "cases = complete valid headers (v1: US-ASCII TCP4/TCP6/UNKNOWN lines in every spelling; v2: every control pair, family and TLV-section kind up to 65535 bytes) accepted by both the oracle and the implementation; for each, every prefix length (all of them up to 300 bytes, a ladder plus 48 random cuts beyond) is parsed through the dedicated byte/text entry points and HeaderResult::parse and must be flagged incomplete; then the header plus a payload is fed to a simulated receiver byte-at-a-time, in 6 two-read splits and 8 random multi-read splits, whose verdict trace must be incomplete*;Ok(header); non-trivial = header accepted by oracle and implementation; distinct = distinct headers"
    }
    fn streams(&self, tier: Tier) -> Vec<StreamSpec> {
        vec![stream("c05-v1", tier.n(20, 120_000, 4_000_000)), stream("c05-v2", tier.n(10, 60_000, 2_000_000)), stream("c05-flags", tier.n(50, 200_000, 20_000_000)), stream("c05-server", tier.n(5, 40_000, 2_000_000))]
    }
    fn run_case(&self, stream: &str, idx: u64, seed: u64, rec: &mut Recorder) {
        let mut rng = Rng::for_case(seed, stream_id(stream), idx);
        match stream {
            "c05-v1" => {
                let mut h = valid_ascii_body(&mut rng).into_bytes();
                h.extend_from_slice(b"\r\n");
                judge(&h, true, rec);
            }
            "c05-v2" => {
                let mut b = Vec::new();
                valid_header(&mut rng, &mut b);
                judge(&b, false, rec);
            }
            "c05-server" => server_loop(idx, seed, rec),
            _ => {
                // the flag laws on arbitrary (mostly invalid) inputs
                let x = if rng.chance(1, 5) {
                    let names = ["tlv-wf", "tlv-rand", "tlv-sized", "tlv-types"];
                    let name = names[rng.below(4) as usize];
                    spec::v2::tlv_case(name, if name == "tlv-types" { idx % 768 } else { idx }, seed)
                } else if rng.coin() {
                    let names = ["v1-valid", "v1-field", "v1-eol", "v1-len", "v1-mut", "v1-rand"];
                    spec::v1gen::v1_case(names[rng.below(6) as usize], idx, seed)
                } else {
                    let mut b = Vec::new();
                    let names = ["v2-ctl-s", "v2-valid", "v2-cut", "v2-mix", "v2-rand"];
                    spec::v2::v2_case(names[rng.below(5) as usize], idx, seed, &mut b);
                    b
                };
                rec.case(hash_bytes(&x), x.len() > 2);
                flag_laws(&x, rec);
                for e in 0..4 {
                    if let Some(r) = parse(e, &x) {
                        rec.event();
                        check_flags(&r, &x, e, rec, "any");
                        rec.class(&format!("flags|{}|{}", ENTRY[e], if r.is_ok() { "ok" } else if matches!(r.flags(), Some((true, _))) { "incomplete" } else { "terminal" }), || show(&x, 80));
                    }
                }
            }
        }
    }
    fn floor(&self, _tier: Tier) -> Vec<&'static str> {
        vec!["oracle:v1-header", "oracle:v2-header"]
    }
    fn replay(&self, case: &str, rec: &mut Recorder) {
        if let Some(rest) = case.strip_prefix("server:") {
            let mut it = rest.split(':');
            if let (Some(Ok(i)), Some(Ok(sd))) = (it.next().map(|x| x.parse::<u64>()), it.next().map(|x| x.parse::<u64>())) {
                server_loop(i, sd, rec);
            }
            return;
        }
        if let Some((k, bytes)) = dec_case(case) {
            match k {
                "v1" => judge(&bytes, true, rec),
                "v2" => judge(&bytes, false, rec),
                _ => {
                    flag_laws(&bytes, rec);
                    for e in 0..4 {
                        if let Some(r) = parse(e, &bytes) {
                            rec.event();
                            check_flags(&r, &bytes, e, rec, "any");
                        }
                    }
                }
            }
        }
    }
    fn assumptions(&self) -> Vec<&'static str> {
        vec!["v1 lines are restricted to US-ASCII as the property's quantifier says", "headers longer than 300 bytes get a ladder of cut points instead of all of them"]
    }
}
