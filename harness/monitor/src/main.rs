//! Runtime monitors for the 20 properties of misalcedo/ppp.  One monitor per property; each
//! drives the real crate through its public API, records the events at that boundary and judges
//! them against the reference oracles in `spec`.
//!
//! usage:
//!   monitor run <ID> --tier quick|thorough|miri --seed N --out FILE --replay-dir DIR
//!                    [--layer NAME] [--threads N] [--shard K/N] [--scale F] [--no-watchdog]
//!                    [--breadcrumb FILE] [--stream NAME]
//!   monitor replay <ID> <replay.json>
//!   monitor case <ID> --stream NAME --idx N --seed N      (run exactly one generated case)
//!   monitor selftest [--seed N]

mod adapt;
mod c01;
mod c02;
mod c03;
mod c04;
mod c05;
mod c06;
mod c07;
mod c08;
mod c09;
mod c11;
mod c12;
mod c13;
mod c14;
mod c15;
mod c16;
mod c17;
mod c18;
mod c19;
mod c20;
mod hist;
mod soup;

use spec::engine::{Monitor, RunCfg, Tier, EXIT_INCONCLUSIVE};
use spec::record::Recorder;

fn monitors() -> Vec<Box<dyn Monitor>> {
    vec![
        Box::new(c01::C01),
        Box::new(c02::C02),
        Box::new(c03::C03),
        Box::new(c04::C04),
        Box::new(c05::C05),
        Box::new(c06::C06),
        Box::new(c07::C07),
        Box::new(c08::C08),
        Box::new(c09::C09),
        Box::new(c09::C10),
        Box::new(c11::C11),
        Box::new(c12::C12),
        Box::new(c13::C13),
        Box::new(c14::C14),
        Box::new(c15::C15),
        Box::new(c16::C16),
        Box::new(c17::C17),
        Box::new(c18::C18),
        Box::new(c19::C19),
        Box::new(c20::C20),
    ]
}

/// Adds to every monitor what does not depend on the property: the whole-API digest in the
/// cold-start probe (after the monitor's own probe, or before it in every second child process)
/// and from the three calling contexts.
struct Wrapped(Box<dyn Monitor>);

impl Monitor for Wrapped {
    fn id(&self) -> &'static str {
        self.0.id()
    }
    fn rule(&self) -> &'static str {
        static RULE: std::sync::OnceLock<String> = std::sync::OnceLock::new();
        RULE.get_or_init(|| {
            format!(
                "{}; in addition, in every monitor: stream api-soup = sequences of 3-7 calls of different kinds over a pool of related inputs in one refilled buffer, each call compared with the same call under another history (a second thread, reverse order, unrelated calls in between); stream api-contexts = the whole-API digest of a fixed input list computed as the first calls of a fresh thread, once more on that thread, from a thread-local destructor at thread exit and on another thread; the cold-start probe (classes cold-start|...) = the first calls of the process, and of 192 (thorough: 480) freshly started child processes, made by twelve threads released together (every third child: one thread), compared with the same calls made later; differences are reported only for the operations the property speaks about",
                self.0.rule()
            )
        })
    }
    fn streams(&self, tier: Tier) -> Vec<spec::engine::StreamSpec> {
        let mut s = self.0.streams(tier);
        s.push(spec::engine::exhaustive("api-contexts", if tier == Tier::Miri { 0 } else { 2 }));
        s.push(spec::engine::stream("api-soup", tier.n(20, 40_000, 3_000_000)));
        s
    }
    fn run_case(&self, stream: &str, idx: u64, seed: u64, rec: &mut Recorder) {
        if stream == "api-contexts" {
            if !spec::engine::layer().starts_with("miri") {
                adapt::judge_digest_contexts(self.0.id(), rec);
            }
            return;
        }
        if stream == "api-soup" {
            soup::judge_soup(self.0.id(), idx, seed, rec);
            return;
        }
        self.0.run_case(stream, idx, seed, rec)
    }
    fn floor(&self, tier: Tier) -> Vec<&'static str> {
        self.0.floor(tier)
    }
    fn replay(&self, case: &str, rec: &mut Recorder) {
        if let Some(rest) = case.strip_prefix("soup:") {
            if let Some((i, s)) = rest.split_once(':') {
                if let (Ok(i), Ok(s)) = (i.parse(), s.parse()) {
                    soup::judge_soup(self.0.id(), i, s, rec);
                }
            }
            return;
        }
        self.0.replay(case, rec)
    }
    fn assumptions(&self) -> Vec<&'static str> {
        self.0.assumptions()
    }
    fn cold_start(&self, rec: &mut Recorder) {
        if std::env::var("VERIF_COLDSTART_CHILD").as_deref() == Ok("2") {
            adapt::default_cold_start(self.0.id(), rec);
            self.0.cold_start(rec);
        } else {
            self.0.cold_start(rec);
            adapt::default_cold_start(self.0.id(), rec);
        }
    }
}

fn arg_after<'a>(args: &'a [String], flag: &str) -> Option<&'a str> {
    args.iter().position(|a| a == flag).and_then(|i| args.get(i + 1)).map(|s| s.as_str())
}

fn main() {
    let args: Vec<String> = std::env::args().collect();
    adapt::install_panic_hook();
    let cmd = args.get(1).map(|s| s.as_str()).unwrap_or("");
    if cmd == "selftest" {
        let seed = arg_after(&args, "--seed").and_then(|s| s.parse().ok()).unwrap_or(1);
        let n = arg_after(&args, "--n").and_then(|s| s.parse().ok()).unwrap_or(300_000);
        let (n, diffs) = spec::selftest::run(seed, n);
        println!("selftest: {} strings compared with std::net / u16::from_str, {} disagreements", n, diffs.len());
        for d in &diffs {
            println!("  ORACLE-DISAGREEMENT {}", d);
        }
        std::process::exit(if diffs.is_empty() { 0 } else { EXIT_INCONCLUSIVE });
    }
    let id = args.get(2).cloned().unwrap_or_default();
    let mon: Box<dyn Monitor> = match monitors().into_iter().find(|m| m.id() == id) {
        Some(m) => Box::new(Wrapped(m)),
        None => {
            eprintln!("unknown property id {:?}", id);
            std::process::exit(EXIT_INCONCLUSIVE);
        }
    };
    match cmd {
        "run" => {
            let tier = match arg_after(&args, "--tier").unwrap_or("quick") {
                "thorough" => Tier::Thorough,
                "miri" => Tier::Miri,
                _ => Tier::Quick,
            };
            let shard = arg_after(&args, "--shard")
                .and_then(|s| s.split_once('/'))
                .and_then(|(a, b)| Some((a.parse().ok()?, b.parse().ok()?)))
                .unwrap_or((0, 1));
            let cfg = RunCfg {
                tier,
                seed: arg_after(&args, "--seed").and_then(|s| s.parse().ok()).unwrap_or(1),
                threads: arg_after(&args, "--threads").and_then(|s| s.parse().ok()).unwrap_or(16),
                shard,
                scale: arg_after(&args, "--scale").and_then(|s| s.parse().ok()).unwrap_or(1.0),
                layer: arg_after(&args, "--layer").unwrap_or("release").to_string(),
                out: arg_after(&args, "--out").unwrap_or("result.json").to_string(),
                replay_dir: arg_after(&args, "--replay-dir").unwrap_or("replays").to_string(),
                watchdog: !args.iter().any(|a| a == "--no-watchdog"),
                hooks: cfg!(feature = "hooks"),
                breadcrumb: arg_after(&args, "--breadcrumb").map(|s| s.to_string()),
                only_stream: arg_after(&args, "--stream").map(|s| s.to_string()),
            };
            std::process::exit(spec::engine::run(mon.as_ref(), &cfg));
        }
        "replay" => {
            let path = args.get(3).cloned().unwrap_or_default();
            let text = match std::fs::read_to_string(&path) {
                Ok(t) => t,
                Err(e) => {
                    eprintln!("cannot read {}: {}", path, e);
                    std::process::exit(EXIT_INCONCLUSIVE);
                }
            };
            let case = match spec::json::extract_str(&text, "case") {
                Some(c) => c.to_string(),
                None => {
                    eprintln!("no case in {}", path);
                    std::process::exit(EXIT_INCONCLUSIVE);
                }
            };
            let mut rec = Recorder::new(0);
            rec.verbose = true;
            rec.cur_stream = "replay".into();
            mon.replay(&case, &mut rec);
            if rec.violation_count == 0 {
                // the recorded input alone is judged fine: the violation may depend on the calls made
                // before it (a history around the case, at one buffer address) - regenerate the
                // whole case from (stream, idx, seed), then the cases the same worker thread ran
                // before it
                let stream = spec::json::extract_str(&text, "stream").unwrap_or("").to_string();
                let idx = spec::json::extract_u64(&text, "idx");
                let seed = spec::json::extract_u64(&text, "seed");
                if let (Some(idx), Some(seed)) = (idx, seed) {
                    if !stream.is_empty() && stream != "replay" {
                        println!("the recorded input alone is judged fine; re-running the generated case {}#{} (seed {}) with its call history", stream, idx, seed);
                        rec.cur_stream = stream.clone();
                        rec.cur_idx = idx;
                        mon.run_case(&stream, idx, seed, &mut rec);
                        if rec.violation_count == 0 {
                            let threads = spec::json::extract_u64(&text, "threads").unwrap_or(16).max(1);
                            let first = idx.saturating_sub(threads * 200);
                            println!("still fine; re-running the up to 200 cases the same worker thread ran before it ({} threads)", threads);
                            let mut i = idx - ((idx - first) / threads) * threads;
                            while i <= idx {
                                rec.cur_idx = i;
                                mon.run_case(&stream, i, seed, &mut rec);
                                i += threads;
                            }
                        }
                    }
                }
            }
            println!("replay of {} against the current tree: {} judged calls, {} violations", path, rec.evaluations, rec.violation_count);
            for v in &rec.violations {
                println!("  [{}] {}", v.rule, v.detail);
            }
            if rec.violation_count > 0 {
                println!("VIOLATION property={} replay={}", id, path);
                std::process::exit(1);
            }
            std::process::exit(0);
        }
        "coldstart" => {
            // child mode of the cold-start probe: only the race, then out
            let mut rec = Recorder::new(0);
            rec.cur_stream = "cold-start".into();
            mon.cold_start(&mut rec);
            for v in &rec.violations {
                println!("COLDSTART-VIOLATION {}", v.detail.replace('\n', " "));
            }
            std::process::exit(if rec.violation_count > 0 { 1 } else { 0 });
        }
        "case" => {
            let stream = arg_after(&args, "--stream").unwrap_or("").to_string();
            let idx = arg_after(&args, "--idx").and_then(|s| s.parse().ok()).unwrap_or(0);
            let seed = arg_after(&args, "--seed").and_then(|s| s.parse().ok()).unwrap_or(1);
            let mut rec = Recorder::new(0);
            rec.cur_stream = stream.clone();
            rec.cur_idx = idx;
            mon.run_case(&stream, idx, seed, &mut rec);
            println!("case {}#{}: {} judged calls, {} violations", stream, idx, rec.evaluations, rec.violation_count);
            for v in &rec.violations {
                println!("  [{}] {} case={}", v.rule, v.detail, &v.case[..v.case.len().min(400)]);
            }
            std::process::exit(if rec.violation_count > 0 { 1 } else { 0 });
        }
        _ => {
            eprintln!("usage: monitor run|replay|case|selftest ...");
            std::process::exit(EXIT_INCONCLUSIVE);
        }
    }
}
