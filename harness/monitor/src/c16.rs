//! C16 — text, byte and FromStr entry points agree; owned copies equal their originals.
//! Mutual agreement of four real executions per string, and a clobber-then-compare test of
//! every owned copy (which Miri / ASan turn into a use-after-free report if the copy aliases the
//! input buffer).

use crate::adapt::*;
use ppp::{v1, v2};
use spec::engine::{stream, stream_id, Monitor, StreamSpec, Tier};
use spec::json::show;
use spec::record::{skeleton_text, Recorder};
use spec::rng::{hash_bytes, Rng};
use spec::v1::window_on_char_boundary;
use spec::v1gen::{v1_case, v1_streams};
use spec::v2::{tlv_case, valid_header};

pub struct C16;

fn agree(s: &str, rec: &mut Recorder) {
    let x = s.as_bytes();
    let boundary = window_on_char_boundary(s);
    rec.class(
        if !boundary {
            "oracle:window-ends-inside-char"
        } else if s.is_ascii() {
            "oracle:ascii"
        } else {
            "oracle:non-ascii,window-on-boundary"
        },
        || show(x, 100),
    );
    let r = guard(|| {
        let r1 = v1::Header::try_from(s);
        let r2 = v1::Header::try_from(x);
        let r3 = s.parse::<v1::Header<'static>>();
        let r4 = s.parse::<v1::Addresses>();
        let mut bad: Vec<(&'static str, String)> = Vec::new();
        let cls;
        if !boundary {
            cls = "all-error";
            if r1.is_ok() || r2.is_ok() || r3.is_ok() || r4.is_ok() {
                bad.push(("accepted-mid-character-window", format!("try_from(&str)={:?} try_from(&[u8])={:?} parse::<Header>={:?} parse::<Addresses>={:?}", r1.is_ok(), r2.is_ok(), r3.is_ok(), r4.is_ok())));
            }
        } else {
            // bytes vs text
            let r2n: Result<&v1::Header<'_>, Option<&v1::ParseError>> = match &r2 {
                Ok(h) => Ok(h),
                Err(v1::BinaryParseError::Parse(e)) => Err(Some(e)),
                Err(_) => Err(None), // InvalidUtf8 (or a variant this harness does not know)
            };
            match (&r1, &r2n) {
                (Ok(a), Ok(b)) if a == *b => {}
                (Err(a), Err(Some(b))) if a == *b => {}
                _ => bad.push(("text-vs-bytes", format!("try_from(&str) = {:?}, try_from(&[u8]) = {:?}", r1, r2))),
            }
            match (&r1, &r3) {
                (Ok(a), Ok(b)) if a == b => {}
                (Err(a), Err(b)) if a == b => {}
                _ => bad.push(("text-vs-fromstr-header", format!("try_from(&str) = {:?}, parse::<Header>() = {:?}", r1, r3))),
            }
            match (&r1, &r4) {
                (Ok(a), Ok(b)) if a.addresses == *b => {}
                (Err(a), Err(b)) if a == b => {}
                _ => bad.push(("text-vs-fromstr-addresses", format!("try_from(&str) = {:?}, parse::<Addresses>() = {:?}", r1, r4))),
            }
            cls = if r1.is_ok() { "all-same-header" } else { "all-same-error" };
        }
        (bad, cls)
    });
    rec.events(4);
    match r {
        Ok((bad, cls)) => {
            if bad.is_empty() {
                rec.class(&format!("agree|{}", cls), || show(x, 100));
            }
            for (rule, d) in bad {
                rec.violation(rule, enc_case("v1", x), skeleton_text(x), format!("{} on {:?}: {}", rule, show(x, 140), d));
            }
        }
        Err(m) => rec.violation("panic-in-entry-point", enc_case("v1", x), skeleton_text(x), format!("one of the four entry points panicked on {:?}: {}", show(x, 140), m)),
    }
}

/// Owned copy of a v1 header: equal, same views, survives clobbering and dropping the input.
fn owned_v1(x: &[u8], rec: &mut Recorder) {
    let mut buf: Vec<u8> = x.to_vec();
    let r = guard(|| {
        let (owned, snap, eq_ok) = {
            let h = match v1::Header::try_from(buf.as_slice()) {
                Ok(h) => h,
                Err(_) => return None,
            };
            let snap = (h.header.to_string(), a1(&h.addresses), h.protocol().to_string(), guard(|| h.addresses_str().to_string()).ok(), h.to_string());
            let o = h.to_owned();
            let eq_ok = o == h && h == o && o.header == h.header && o.addresses == h.addresses;
            (o, snap, eq_ok)
        };
        for b in buf.iter_mut() {
            *b = 0xA5;
        }
        drop(std::mem::take(&mut buf));
        let churn: Vec<Vec<u8>> = (0..4).map(|i| vec![0x5Au8; x.len() + i]).collect(); // reuse the freed block
        let after = (owned.header.to_string(), a1(&owned.addresses), owned.protocol().to_string(), guard(|| owned.addresses_str().to_string()).ok(), owned.to_string());
        drop(churn);
        Some((eq_ok, snap == after))
    });
    rec.events(8);
    report_owned("v1-header", x, "v1", r, rec);
}

fn owned_v2(x: &[u8], rec: &mut Recorder) {
    let mut buf: Vec<u8> = x.to_vec();
    let r = guard(|| {
        let (owned, otlvs, snap, eq_ok) = {
            let h = match v2::Header::try_from(buf.as_slice()) {
                Ok(h) => h,
                Err(_) => return None,
            };
            let tl: Vec<Result<(u8, Vec<u8>), String>> = h.tlvs().take(64).map(|t| t.map(|t| (t.kind, t.value.to_vec())).map_err(|e| format!("{:?}", e))).collect();
            let snap = (h.header.to_vec(), o2_of(&Ok(h.clone())), h.address_bytes().to_vec(), h.tlv_bytes().to_vec(), h.length(), h.len(), tl);
            let o = h.to_owned();
            let mut eq_ok = o == h && h == o;
            // owned copies of the decoded TLVs
            let mut otlvs = Vec::new();
            for t in h.tlvs().take(64).flatten() {
                let ot = t.to_owned();
                eq_ok &= ot == t && ot.kind == t.kind && ot.value == t.value && ot.len() == t.len() && ot.is_empty() == t.is_empty();
                otlvs.push(ot);
            }
            (o, otlvs, snap, eq_ok)
        };
        for b in buf.iter_mut() {
            *b = 0xA5;
        }
        drop(std::mem::take(&mut buf));
        let churn: Vec<Vec<u8>> = (0..4).map(|i| vec![0x5Au8; x.len() + i]).collect();
        let tl: Vec<Result<(u8, Vec<u8>), String>> = owned.tlvs().take(64).map(|t| t.map(|t| (t.kind, t.value.to_vec())).map_err(|e| format!("{:?}", e))).collect();
        let after = (owned.header.to_vec(), o2_of(&Ok(owned.clone())), owned.address_bytes().to_vec(), owned.tlv_bytes().to_vec(), owned.length(), owned.len(), tl);
        let mut same = snap == after;
        // the owned TLVs must still hold the values the snapshot recorded
        let mut k = 0;
        for item in snap.6.iter() {
            if let Ok((kind, value)) = item {
                match otlvs.get(k) {
                    Some(ot) if ot.kind == *kind && ot.value.as_ref() == value.as_slice() => {}
                    _ => same = false,
                }
                k += 1;
            }
        }
        drop(churn);
        Some((eq_ok, same))
    });
    rec.events(12);
    report_owned("v2-header+tlvs", x, "v2", r, rec);
}

fn owned_tlv(section: &[u8], rec: &mut Recorder) {
    let mut buf: Vec<u8> = section.to_vec();
    let r = guard(|| {
        let (owned, snap, eq_ok) = {
            let items: Vec<v2::TypeLengthValue<'_>> = v2::TypeLengthValues::from(buf.as_slice()).take(64).flatten().collect();
            if items.is_empty() {
                return None;
            }
            let snap: Vec<(u8, Vec<u8>)> = items.iter().map(|t| (t.kind, t.value.to_vec())).collect();
            let owned: Vec<v2::TypeLengthValue<'static>> = items.iter().map(|t| t.to_owned()).collect();
            let eq_ok = owned.iter().zip(items.iter()).all(|(o, t)| o == t && o.len() == t.len());
            (owned, snap, eq_ok)
        };
        for b in buf.iter_mut() {
            *b = 0xA5;
        }
        drop(std::mem::take(&mut buf));
        let churn: Vec<Vec<u8>> = (0..4).map(|i| vec![0x5Au8; section.len() + i]).collect();
        let same = owned.len() == snap.len() && owned.iter().zip(snap.iter()).all(|(o, (k, v))| o.kind == *k && o.value.as_ref() == v.as_slice());
        drop(churn);
        Some((eq_ok, same))
    });
    rec.events(4);
    report_owned("tlv", section, "tlv", r, rec);
}

fn report_owned(what: &str, x: &[u8], kind: &str, r: Result<Option<(bool, bool)>, String>, rec: &mut Recorder) {
    let case = || enc_case(&format!("own-{}", kind), &x[..x.len().min(70_100)]);
    match r {
        Ok(None) => {}
        Ok(Some((eq_ok, same))) => {
            rec.class(&format!("owned-copy-checked|{}", what), || show(x, 60));
            if !eq_ok {
                rec.violation(&format!("owned-not-equal:{}", what), case(), what.to_string(), format!("to_owned() of the {} parsed from {:?} does not compare equal to / expose the same views as the original", what, show(x, 100)));
            }
            if !same {
                rec.violation(&format!("owned-changed-after-clobber:{}", what), case(), what.to_string(), format!("the owned {} parsed from {:?} changed after the input buffer was overwritten and dropped", what, show(x, 100)));
            }
        }
        Err(m) => rec.violation(&format!("panic-owned:{}", what), case(), what.to_string(), m),
    }
}

impl Monitor for C16 {
    fn id(&self) -> &'static str {
        "C16"
    }
    fn rule(&self) -> &'static str {
        "cases = (a) every valid-UTF-8 input of the v1 workload, including all insertion offsets of 2-/3-/4-byte characters into 40 line templates: the four entry points try_from(&str), try_from(&[u8]), parse::<Header>, parse::<Addresses> must give the same header / addresses / error (PartialEq on the real values) when the examined window ends on a character boundary, and an error in all of them otherwise; (b) every accepted v1 header, v2 header and decoded TLV of the v1/v2/TLV workloads: to_owned() must equal the original, expose the same views, and be unchanged after the heap input buffer is overwritten with 0xA5, dropped and its block reused; non-trivial = UTF-8 input containing 'PROXY' or a CR, or an accepted header/TLV; distinct = distinct inputs"
    }
    fn streams(&self, tier: Tier) -> Vec<StreamSpec> {
        let mut s = v1_streams(tier, 6_000);
        s.push(stream("c16-v2", tier.n(40, 400_000, 15_000_000)));
        s.push(stream("c16-tlv", tier.n(40, 400_000, 15_000_000)));
        s.push(spec::engine::exhaustive("calling-context", 2));
        s
    }
    fn run_case(&self, stream: &str, idx: u64, seed: u64, rec: &mut Recorder) {
        if stream == "calling-context" {
            // the same calls from an ordinary place, a second time, and from a thread-local
            // destructor at thread exit (pure functions do not depend on where they are called)
            let _ = (idx, seed);
            if spec::engine::layer().starts_with("miri") {
                return;
            }
            crate::adapt::judge_context(&["C16"], rec);
            return;
        }
        match stream {
            "c16-v2" => {
                let mut rng = Rng::for_case(seed, stream_id(stream), idx);
                let mut b = Vec::new();
                valid_header(&mut rng, &mut b);
                rec.case(hash_bytes(&b[..b.len().min(4096)]) ^ b.len() as u64, true);
                rec.class("oracle:v2-header", || show(&b[..b.len().min(32)], 32));
                owned_v2(&b, rec);
            }
            "c16-tlv" => {
                let names = ["tlv-wf", "tlv-sized", "tlv-rand", "tlv-small", "tlv-types", "tlv-lens"];
                let name = names[(idx % 6) as usize];
                let s = tlv_case(
                    name,
                    match name {
                        "tlv-small" => idx % spec::v2::small_section_count(8),
                        "tlv-types" => (idx / 6) % (256 * (3 + spec::v2::TYPE_LENS.len() as u64)),
                        "tlv-lens" => (idx / 6) % (spec::v2::len_ladder().len() as u64 * 4),
                        _ => idx,
                    },
                    seed,
                );
                rec.case(hash_bytes(&s), s.len() >= 3);
                rec.class("oracle:tlv-section", || show(&s, 32));
                owned_tlv(&s, rec);
            }
            _ => {
                let x = v1_case(stream, idx, seed);
                spec::sib::run_v1(&x, idx, 4, |x| {
                    let nontrivial = x.windows(5).any(|w| w == b"PROXY") || x.contains(&b'\r');
                    rec.case(hash_bytes(x), nontrivial);
                    if let Ok(s) = std::str::from_utf8(x) {
                        agree(s, rec);
                    }
                    if matches!(spec::v1::v1_ref(x), spec::v1::V1Ref::Accept(_)) {
                        rec.class("oracle:v1-header", || show(x, 80));
                    }
                    owned_v1(x, rec);
                });
            }
        }
    }
    fn floor(&self, tier: Tier) -> Vec<&'static str> {
        let mut f = vec!["oracle:window-ends-inside-char", "oracle:ascii", "oracle:v1-header", "oracle:v2-header", "oracle:tlv-section"];
        if tier != Tier::Miri {
            f.push("oracle:non-ascii,window-on-boundary");
        }
        f
    }
    fn replay(&self, case: &str, rec: &mut Recorder) {
        match dec_case(case) {
            Some(("v1", x)) => {
                if let Ok(s) = std::str::from_utf8(&x) {
                    agree(s, rec);
                }
                owned_v1(&x, rec);
            }
            Some(("own-v1", x)) => owned_v1(&x, rec),
            Some(("own-v2", x)) => owned_v2(&x, rec),
            Some(("own-tlv", x)) => owned_tlv(&x, rec),
            _ => {}
        }
    }
    fn assumptions(&self) -> Vec<&'static str> {
        vec!["'same error' is PartialEq on ppp's own error values, with BinaryParseError::Parse(e) identified with e", "aliasing of a freed input is only certain to be noticed in the Miri / ASan layers; in the plain builds it is noticed when the clobbered bytes show through"]
    }
}
