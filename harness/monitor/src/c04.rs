//! C04 — an accepted header never depends on or consumes the bytes that follow it.
//! Metamorphic monitor over real executions: parse(x), parse(reported header), parse(x ++ t),
//! parse(header ++ t) must all be the identical success, and the reported header length must be
//! the line through its CRLF (v1) / 16 + declared length (v2).

use crate::adapt::*;
use spec::engine::{stream, Monitor, StreamSpec, Tier};
use spec::json::show;
use spec::record::{skeleton_text, Recorder};
use spec::rng::{hash_bytes, Rng};
use spec::v1gen::{trailers, v1_case, v1_streams};
use spec::v2::{v2_case, v2_streams};

pub struct C04;

#[derive(Clone, PartialEq, Debug)]
enum Out {
    A(O1),
    B(O2),
    C(OA),
}

impl Out {
    fn is_ok(&self) -> bool {
        match self {
            Out::A(o) => o.is_ok(),
            Out::B(o) => o.is_ok(),
            Out::C(o) => o.is_ok(),
        }
    }
    fn header(&self) -> Option<Vec<u8>> {
        match self {
            Out::A(O1::Ok { header, .. }) | Out::C(OA::V1(O1::Ok { header, .. })) => Some(header.clone().into_bytes()),
            Out::B(O2::Ok { header, .. }) | Out::C(OA::V2(O2::Ok { header, .. })) => Some(header.clone()),
            _ => None,
        }
    }
    fn is_v1(&self) -> bool {
        matches!(self, Out::A(_) | Out::C(OA::V1(_)))
    }
    fn brief(&self) -> String {
        match self {
            Out::A(o) => format!("{:?}", o),
            Out::B(O2::Ok { header, cmd, tr, fam, .. }) => format!("Ok(v2 {} bytes cmd{} tr{} fam{})", header.len(), cmd, tr, fam),
            Out::B(o) => format!("{:?}", o),
            Out::C(OA::V2(O2::Ok { header, .. })) => format!("V2 Ok({} bytes)", header.len()),
            Out::C(o) => format!("{:?}", o),
        }
    }
}

fn parse(entry: usize, input: &[u8]) -> Option<Out> {
    Some(match entry {
        0 => Out::A(v1_bytes(input)),
        1 => Out::A(v1_str(std::str::from_utf8(input).ok()?)),
        2 => Out::B(v2_parse(input)),
        3 => Out::C(auto_parse(input)),
        _ => Out::A(v1_fromstr_header(std::str::from_utf8(input).ok()?)),
    })
}

const ENTRY: [&str; 5] = ["v1-bytes", "v1-str", "v2", "auto", "fromstr-header"];

pub fn judge(x: &[u8], rng: &mut Rng, rec: &mut Recorder, kind: &str) {
    let mut any_ok = false;
    match spec::v1::v1_ref(x) {
        spec::v1::V1Ref::Accept(_) => rec.class("oracle:v1-accept", || show(x, 100)),
        _ => {}
    }
    if spec::v2::v2_ref(x).is_ok() {
        rec.class("oracle:v2-ok", || show(x, 48));
    }
    let mut ts = trailers();
    for _ in 0..4 {
        let n = rng.range(1, 20) as usize;
        ts.push(match rng.below(3) {
            0 => rng.bytes(n),
            1 => (0..n).map(|_| b'0' + rng.below(10) as u8).collect(),
            _ => (0..n).map(|_| *rng.pick(&[b'\r', b'\n', b' ', b'a', b':', b'.', 0u8, b'f'])).collect(),
        });
    }
    if hash_bytes(x) % 32 == 0 && x.len() < 400 {
        ts.extend(spec::v1gen::big_trailers());
    }
    for entry in 0..5 {
        let r0 = match parse(entry, x) {
            Some(r) => r,
            None => continue,
        };
        rec.event();
        if !r0.is_ok() {
            // x itself may be "an accepted header followed by further bytes": if the bytes that
            // would be its header (the line through the first CRLF / 16 + declared length bytes)
            // are accepted on their own, x has to be accepted with the identical result
            let cand: Option<&[u8]> = if entry == 2 || (entry == 3 && x.len() >= 16 && x[..12] == spec::v2::SIG) {
                if x.len() >= 16 {
                    let l = 16 + u16::from_be_bytes([x[14], x[15]]) as usize;
                    if l < x.len() { Some(&x[..l]) } else { None }
                } else {
                    None
                }
            } else {
                x.windows(2).position(|w| w == b"\r\n").map(|i| &x[..i + 2]).filter(|c| c.len() < x.len())
            };
            if let Some(c) = cand {
                let fresh = c.to_vec();
                if let Some(rh) = parse(entry, &fresh) {
                    rec.event();
                    if rh.is_ok() && rh.header().map(|h| h.len()) == Some(c.len()) {
                        any_ok = true;
                        rec.violation(
                            &format!("trailer-changes-result:{}", ENTRY[entry]),
                            enc_case(kind, &x[..x.len().min(70_100)]),
                            skeleton_text(x),
                            format!("trailer-changes-result via {}: the first {} bytes of the input are accepted on their own ({}), the input {:?} - the same header followed by {} further bytes - gives {}", ENTRY[entry], c.len(), rh.brief(), show(x, 120), x.len() - c.len(), r0.brief()),
                        );
                    }
                }
            }
            continue;
        }
        any_ok = true;
        rec.class(&format!("accepted|{}", ENTRY[entry]), || show(x, 100));
        let h = r0.header().unwrap_or_default();
        let viol = |rec: &mut Recorder, rule: &str, input: &[u8], detail: String| {
            rec.violation(
                &format!("{}:{}", rule, ENTRY[entry]),
                enc_case(kind, &x[..x.len().min(70_100)]),
                skeleton_text(x),
                format!("{} via {}: accepted input {:?}; {} (probe {:?})", rule, ENTRY[entry], show(x, 120), detail, show(input, 120)),
            );
        };
        // reported length = the number of bytes the caller must remove from its buffer
        let expect_len = if r0.is_v1() {
            x.iter().position(|&b| b == b'\r').map(|i| i + 2)
        } else if x.len() >= 16 {
            Some(16 + u16::from_be_bytes([x[14], x[15]]) as usize)
        } else {
            None
        };
        if expect_len != Some(h.len()) || !x.starts_with(&h) {
            viol(rec, "header-length", x, format!("reported header has {} bytes, expected {:?} (a prefix of the input)", h.len(), expect_len));
        }
        // the header alone
        if let Some(r) = parse(entry, &h) {
            rec.event();
            if r != r0 {
                viol(rec, "header-alone-differs", &h, format!("parse(input) = {}, parse(reported header) = {}", r0.brief(), r.brief()));
            }
        }
        // followed by anything
        let mut ext = Vec::with_capacity(x.len() + 64);
        for (ti, t) in ts.iter().enumerate() {
            for base in [x, &h[..]] {
                if base.len() > 2000 && ti % 5 != 0 {
                    continue; // large headers: a subset of trailers (cost)
                }
                if ti % 3 == 0 && entry != 2 && h.len() + 1 < 106 && base.len() + t.len() > h.len() + 1 {
                    // the receive buffer held an unfinished CR-free line of other content, longer
                    // than this header, when it was refilled
                    let n = rng.range(h.len() as u64 + 1, (base.len() + t.len()).min(106) as u64) as usize;
                    ext.clear();
                    ext.resize(n, b'A');
                    let _ = parse(entry, &ext);
                    rec.event();
                }
                ext.clear();
                ext.extend_from_slice(base);
                ext.extend_from_slice(t);
                if let Some(r) = parse(entry, &ext) {
                    rec.event();
                    if r != r0 {
                        viol(rec, "trailer-changes-result", &ext[ext.len().saturating_sub(t.len() + 40)..], format!("parse(input) = {}, with trailer {:?}: {}", r0.brief(), show(t, 40), r.brief()));
                        break;
                    }
                }
            }
        }
    }
    rec.case(hash_bytes(x), any_ok);
}

impl Monitor for C04 {
    fn id(&self) -> &'static str {
        "C04"
    }
    fn rule(&self) -> &'static str {
        "cases = inputs of the v1 and v2 workloads (valid and near-miss alike); every input that the implementation accepts through try_from(&[u8]) / try_from(&str) / str::parse::<Header> / v2 / HeaderResult::parse is re-parsed alone (reported header bytes only) and followed by each of 15 fixed trailers (empty, HTTP request, another v1 line, a v2 header, CR, LF, NUL, SP, digits and hex digits that would extend the last field, ...) plus 4 random ones, appended both to the input and to the reported header; non-trivial = the implementation accepted the input through at least one entry point; distinct = distinct inputs"
    }
    fn streams(&self, tier: Tier) -> Vec<StreamSpec> {
        let mut s = v1_streams(tier, 2_000);
        s.extend(v2_streams(tier, 3_000).into_iter().filter(|s| s.name != "v2-ctl" && s.name != "v2-sig"));
        if tier != Tier::Miri {
            s.push(stream("v2-ctl-s", tier.n(0, 100_000, 5_000_000)));
        }
        if tier != Tier::Miri {
            s.push(spec::engine::exhaustive("c04-huge", 18));
        }
        spec::engine::sample_sweeps(s, tier, 4, 2)
    }
    fn run_case(&self, stream: &str, idx: u64, seed: u64, rec: &mut Recorder) {
        if stream == "c04-huge" {
            // an accepted header followed by 2 GiB .. 8 GiB of further (zero) bytes
            if !spec::engine::huge_ok() {
                return;
            }
            let mut rng = Rng::new(idx ^ seed.rotate_left(9));
            let v1 = idx % 3 == 2;
            let h: Vec<u8> = if v1 {
                let mut l = spec::v1gen::valid_ascii_body(&mut rng).into_bytes();
                l.extend_from_slice(b"\r\n");
                l
            } else {
                let mut b = Vec::new();
                let (vc, fp) = spec::v2::valid_ctl(idx);
                spec::v2::valid_header_budget(&mut rng, &mut b, vc, fp, Some(40));
                b
            };
            let size = spec::engine::HUGE_SIZES[(idx / 3) as usize % spec::engine::HUGE_SIZES.len()];
            rec.case(hash_bytes(&h) ^ size as u64, true);
            for entry in if v1 { vec![0usize, 3] } else { vec![2usize, 3] } {
                let want = parse(entry, &h).unwrap();
                if !want.is_ok() {
                    continue;
                }
                rec.events(2);
                match spec::engine::with_huge(&h, size, |x| parse(entry, x).unwrap()) {
                    None => rec.class("skipped:huge-allocation-refused", || size.to_string()),
                    Some(g) if g == want => rec.class("accepted|followed-by-multi-GiB", || format!("{} bytes", size)),
                    Some(g) => rec.violation(
                        &format!("trailer-changes-result:{}", ENTRY[entry]),
                        enc_case(if v1 { "v1" } else { "v2" }, &h),
                        "huge-trailer".into(),
                        format!("trailer-changes-result via {}: header {:?} alone gives {}, followed by zero bytes up to a buffer of {} bytes it gives {}", ENTRY[entry], show(&h, 60), want.brief(), size, g.brief()),
                    ),
                }
            }
            return;
        }
        // the random trailers are a function of the input alone, so that a replay is exact
        if stream.starts_with("v1-") {
            let x = v1_case(stream, idx, seed);
            spec::sib::run_v1(&x, idx, 8, |x| {
                let mut rng = Rng::new(hash_bytes(x));
                judge(x, &mut rng, rec, "v1")
            });
        } else {
            let mut b = Vec::new();
            v2_case(stream, idx, seed, &mut b);
            spec::sib::run_v2(&b, idx, 8, |x| {
                let mut rng = Rng::new(hash_bytes(x));
                judge(x, &mut rng, rec, "v2")
            });
        }
    }
    fn floor(&self, _tier: Tier) -> Vec<&'static str> {
        vec!["oracle:v1-accept", "oracle:v2-ok"]
    }
    fn replay(&self, case: &str, rec: &mut Recorder) {
        if let Some((k, bytes)) = dec_case(case) {
            let mut rng = Rng::new(hash_bytes(&bytes));
            judge(&bytes, &mut rng, rec, k);
        }
    }
    fn assumptions(&self) -> Vec<&'static str> {
        vec!["equality of results is PartialEq-level: header bytes/text, decoded addresses, command, transport, completeness flags"]
    }
}
