//! Call soup: short sequences of calls of *different kinds* on one thread, over a small pool of
//! related inputs held in one refilled buffer - against the same calls made in isolation.
//!
//! Every operation below is specified as a pure function of its argument. The histories of
//! `spec::sib` repeat one kind of call over related inputs; what they cannot show is state that
//! one kind of call sets up and another kind consumes (a scratch buffer shared by the parser and
//! the formatter, a "last header" slot that the builder reads, a TLV index that a rebuild leaves
//! behind). Here a sequence of 3..7 (operation, input) pairs is executed in order on the worker
//! thread; afterwards every call of the sequence is made again under another history - on a second
//! thread, in reverse order, each after a round of unrelated calls (one sequence in 64: each call
//! alone on a fresh thread) - and, for operations that hand a value over, with the value produced
//! on the worker thread and consumed on the second one. The rendered
//! results must be identical. A monitor reports a difference only for operations that its
//! property speaks about (and C03 reports every panic).

use crate::adapt::*;
use ppp::v2::WriteToHeader;
use ppp::{v1, v2};
use spec::record::Recorder;
use spec::rng::Rng;
use std::fmt::Write as _;

/// (name, properties whose statement covers the operation)
pub const OPS: [(&str, &[&str]); 22] = [
    ("v1::Header::try_from(&[u8])", &["C01", "C04", "C05", "C12", "C16", "C18"]),
    ("v1::Header::try_from(&str)", &["C01", "C05", "C12", "C16", "C18"]),
    ("str::parse::<v1::Header>", &["C01", "C12", "C16", "C18"]),
    ("str::parse::<v1::Addresses>", &["C01", "C12", "C16", "C18"]),
    ("v2::Header::try_from", &["C02", "C04", "C05", "C12", "C17"]),
    ("HeaderResult::parse", &["C04", "C05", "C06", "C12"]),
    ("v1 views (protocol, addresses_str, Display)", &["C15"]),
    ("v1 owned copy + Display of the addresses with flags", &["C08", "C16"]),
    ("v2 views (lengths, family, address / TLV bytes, decoded addresses)", &["C14", "C02"]),
    ("v2 TLV walk (borrowed and owned) with count / last", &["C11", "C16"]),
    ("v2 rebuild from the raw views", &["C13"]),
    ("v2 rebuild from the decoded parts", &["C13", "C07"]),
    ("TLV walk over the raw bytes", &["C11"]),
    ("builder history derived from the bytes", &["C09", "C10"]),
    ("encoders (to_bytes / write_to of a TLV, a pair, integers, a section)", &["C20"]),
    ("socket-pair and component conversions", &["C19"]),
    ("Display of address values derived from the bytes", &["C08"]),
    ("v1 header parsed here, used on another thread", &["C15", "C16", "C08"]),
    ("v2 header parsed here, used on another thread", &["C14", "C11", "C13", "C16"]),
    ("builder filled here, built on another thread", &["C09", "C10"]),
    ("values written into a writer that is over its limit (refused) and into an empty one", &["C20"]),
    ("clone_from into an owned header that held something else", &["C01", "C02", "C14", "C15", "C16"]),
];

fn addr_from(x: &[u8]) -> (v1::Addresses, v2::Addresses, (std::net::SocketAddr, std::net::SocketAddr)) {
    let g = |i: usize| x.get(i % x.len().max(1)).copied().unwrap_or(7);
    let sp = u16::from_be_bytes([g(9), g(3)]);
    let dp = u16::from_be_bytes([g(5), g(11)]);
    if g(0) & 1 == 0 {
        let (s, d) = ([g(1), g(2), g(3), g(4)], [g(5), g(6), g(7), g(8)]);
        let pair = (std::net::SocketAddr::from((s, sp)), std::net::SocketAddr::from((d, dp)));
        (v1::Addresses::new_tcp4(s, d, sp, dp), v2::IPv4::new(s, d, sp, dp).into(), pair)
    } else {
        let mut s = [0u8; 16];
        let mut d = [0u8; 16];
        for i in 0..16 {
            s[i] = g(i + 1);
            d[i] = g(i + 13);
        }
        if g(0) & 2 == 0 {
            s[..12].copy_from_slice(&[0, 0, 0, 0, 0, 0, 0, 0, 0, 0, 0xff, 0xff]);
        }
        let pair = (std::net::SocketAddr::from((s, sp)), std::net::SocketAddr::from((d, dp)));
        (v1::Addresses::new_tcp6(s, d, sp, dp), v2::IPv6::new(s, d, sp, dp).into(), pair)
    }
}

fn render_v1(h: &v1::Header<'_>) -> String {
    format!("{}|{}|{}|{}|{:?}", h.protocol(), h.addresses_str(), h, h.addresses, h.addresses)
}

fn render_v2(h: &v2::Header<'_>) -> String {
    let items: Vec<String> = h.tlvs().take(64).map(|t| format!("{:?}", t.map(|t| (t.kind, t.value.len(), t.value.first().copied())))).collect();
    let mut it = h.tlvs();
    let _ = it.next();
    let raw = v2::Builder::new(h.header[12], h.header[13]).write_payload(h.address_bytes()).and_then(|b| b.write_payload(h.tlv_bytes())).and_then(|b| b.build()).map_err(|e| e.kind());
    format!("{}|{}|{:?}|{}|{}|{:?}|{:?}|{:?}|{}|{:?}|{:?}", h.len(), h.length(), h.address_family(), h.address_bytes().len(), h.tlv_bytes().len(), h.addresses, h.command, items, it.clone().take(h.len() / 3 + 3).count(), it.take(h.len() / 3 + 3).last().map(|t| t.map(|t| t.kind)), raw.map(|b| spec::rng::hash_bytes(&b)))
}

fn fill_builder(x: &[u8]) -> std::io::Result<v2::Builder> {
    let g = |i: usize| x.get(i % x.len().max(1)).copied().unwrap_or(3);
    let mut b = v2::Builder::new(0x20 | (g(0) & 1), (g(1) & 3).min(2) | ((g(2) & 3) << 4));
    if g(3) & 1 == 1 {
        b = b.set_length(u16::from_be_bytes([0, g(4)]));
    }
    b = b.write_payload(&x[..x.len().min(40)])?;
    if g(5) & 1 == 1 {
        b = b.reserve_capacity(g(6) as usize);
    }
    b = b.write_tlv(g(7), &x[..x.len().min(9)])?;
    if g(8) & 3 == 0 {
        b = b.set_length(None);
    }
    b.write_payloads([g(9) as u16, 0xBEEF].iter())
}

/// A second thread per worker thread. It lives as long as the worker, so it has a history of its
/// own - another one: before every job it makes a fixed round of calls on inputs that have nothing
/// to do with the job ("last value" slots are flushed), and the jobs of a sequence reach it in
/// reverse order.
enum Job {
    /// a whole sequence, executed last call first
    Seq(Vec<(usize, Vec<u8>)>),
    V1(v1::Header<'static>),
    V2(v2::Header<'static>),
    Build(v2::Builder),
}

struct Helper {
    tx: std::sync::mpsc::Sender<Job>,
    rx: std::sync::mpsc::Receiver<Vec<String>>,
}

fn scrub() {
    let _ = guard(|| {
        let _ = v1::Header::try_from(&b"PROXY TCP4 198.51.100.7 203.0.113.9 4242 25\r\nEHLO"[..]).map(|h| render_v1(&h));
        let _ = v1::Header::try_from("PROXY UNKNOWN scrub\r\n").map(|h| h.to_string());
        let mut b = spec::v2::SIG.to_vec();
        b.extend_from_slice(&[0x21, 0x12, 0, 17, 198, 51, 100, 7, 203, 0, 113, 9, 16, 146, 0, 25, 0xEE, 0, 2, 5, 5]);
        let _ = v2::Header::try_from(&b[..]).map(|h| render_v2(&h));
        let _ = ppp::HeaderResult::parse(&b[..20]);
        let _ = fill_builder(b"scrub scrub scrub").and_then(|b| b.build());
        let _ = v1::Addresses::new_tcp6([9u16; 8], [8u16; 8], 7, 6).to_string();
    });
}

fn helper_exec(job: Job) -> Vec<String> {
    if let Job::Seq(calls) = job {
        let mut v: Vec<String> = calls
            .iter()
            .rev()
            .map(|(op, x)| {
                scrub();
                run_op(*op, x)
            })
            .collect();
        v.reverse();
        return v;
    }
    scrub();
    vec![guard(|| match job {
        Job::Seq(_) => String::new(),
        Job::V1(o) => render_v1(&o),
        Job::V2(o) => render_v2(&o),
        Job::Build(b) => format!("{:?}", b.build().map_err(|e| e.kind())),
    })
    .unwrap_or_else(|m| format!("PANIC {}", m))]
}

thread_local! {
    static HELPER: Option<Helper> = {
        let (tx, jrx) = std::sync::mpsc::channel::<Job>();
        let (rtx, rx) = std::sync::mpsc::channel::<Vec<String>>();
        let ok = std::thread::Builder::new().name("soup-helper".into()).spawn(move || {
            while let Ok(job) = jrx.recv() {
                if rtx.send(helper_exec(job)).is_err() {
                    break;
                }
            }
        }).is_ok();
        if ok { Some(Helper { tx, rx }) } else { None }
    };
}

fn on_helper_seq(job: Job) -> Vec<String> {
    HELPER.with(|h| match h {
        Some(h) => {
            if h.tx.send(job).is_err() {
                return vec!["PANIC: the second thread is gone".to_string()];
            }
            h.rx.recv().unwrap_or_else(|_| vec!["PANIC: the second thread died".to_string()])
        }
        None => vec!["PANIC: no second thread".to_string()],
    })
}

fn on_helper(job: Job) -> String {
    on_helper_seq(job).pop().unwrap_or_default()
}

/// Executes operation `op` on `x` and renders the outcome. `split`: values are produced here and
/// consumed on a fresh thread (ops 17..19 always do that).
pub fn run_op(op: usize, x: &[u8]) -> String {
    let r = guard(|| match op {
        0 => format!("{:?}", v1_bytes(x)),
        1 => std::str::from_utf8(x).map(|s| format!("{:?}", v1_str(s))).unwrap_or_default(),
        2 => std::str::from_utf8(x).map(|s| format!("{:?}", v1_fromstr_header(s))).unwrap_or_default(),
        3 => std::str::from_utf8(x).map(|s| format!("{:?}", v1_fromstr_addr(s))).unwrap_or_default(),
        4 => format!("{:?}", v2_parse(x)),
        5 => format!("{:?}", auto_parse(x)),
        6 => v1::Header::try_from(x).map(|h| render_v1(&h)).unwrap_or_else(|_| "-".into()),
        7 => v1::Header::try_from(x)
            .map(|h| {
                let o = h.to_owned();
                let mut s = String::new();
                let _ = write!(s, "{}|{:>60}|{:<3}|{:+}|{:?}|{}", o.addresses, o.addresses, o.addresses, o.addresses, o, o == h);
                s
            })
            .unwrap_or_else(|_| "-".into()),
        8 => v2::Header::try_from(x).map(|h| format!("{}|{}|{:?}|{:?}|{:?}|{:?}", h.len(), h.length(), h.address_family(), h.addresses, h.address_bytes(), spec::rng::hash_bytes(h.tlv_bytes()))).unwrap_or_else(|_| "-".into()),
        9 => v2::Header::try_from(x)
            .map(|h| {
                let o = h.to_owned();
                format!("{}|{}|{}", render_v2(&h), render_v2(&o), o == h)
            })
            .unwrap_or_else(|_| "-".into()),
        10 => v2::Header::try_from(x)
            .map(|h| format!("{:?}", v2::Builder::new(h.header[12], h.header[13]).write_payload(h.address_bytes()).and_then(|b| b.write_payload(h.tlvs())).and_then(|b| b.build()).map_err(|e| e.kind())))
            .unwrap_or_else(|_| "-".into()),
        11 => v2::Header::try_from(x)
            .map(|h| format!("{:?}", v2::Builder::with_addresses(h.version | h.command, h.protocol, h.addresses).write_payloads(h.tlvs().take(h.len() / 3 + 3).filter_map(|t| t.ok())).and_then(|b| b.build()).map_err(|e| e.kind())))
            .unwrap_or_else(|_| "-".into()),
        12 => {
            let t = v2::TypeLengthValues::from(&x[..x.len().min(400)]);
            let items: Vec<String> = t.clone().take(64).map(|t| format!("{:?}", t.map(|t| (t.kind, t.value.len())))).collect();
            format!("{}|{:?}|{}", t.len(), items, t.take(x.len() / 3 + 3).count())
        }
        13 => format!("{:?}", fill_builder(x).and_then(|b| b.build()).map_err(|e| e.kind())),
        14 => {
            let k = x.first().copied().unwrap_or(1);
            let v = &x[..x.len().min(30)];
            let mut w = v2::Writer::from(vec![9u8; (k & 3) as usize]);
            let n = (k, v).write_to(&mut w).map_err(|e| e.kind());
            format!("{:?}|{:?}|{:?}|{:?}|{:?}|{:?}|{:?}", v2::TypeLengthValue::new(k, v).to_bytes().map_err(|e| e.kind()), n, w.finish(), (k as u16 * 257).to_bytes().ok(), (k as i64 - 99).to_bytes().ok(), v2::TypeLengthValues::from(v).to_bytes().map_err(|e| e.kind()), v.to_bytes().ok())
        }
        15 => {
            let (a1, a2, pair) = addr_from(x);
            format!("{:?}|{:?}|{:?}|{:?}|{:?}", a1, a2, v1::Addresses::from(pair), v2::Addresses::from(pair), v2::Addresses::from((pair.1, pair.0)))
        }
        16 => {
            let (a1, _, _) = addr_from(x);
            format!("{}|{:>70}|{}", a1, a1, v1::Addresses::Unknown)
        }
        20 => {
            // a refused write must leave nothing behind, here or anywhere else
            let (_, a2, _) = addr_from(x);
            let k = x.first().copied().unwrap_or(1);
            let mut full = v2::Writer::from(vec![0x5Au8; 65_552]);
            let r1 = a2.write_to(&mut full).map_err(|e| e.kind());
            let r2 = (k, &x[..x.len().min(12)]).write_to(&mut full).map_err(|e| e.kind());
            let r3 = (k as u32).write_to(&mut full).map_err(|e| e.kind());
            let left = full.finish().len();
            format!("{:?}|{:?}|{:?}|{}|{:?}|{:?}", r1, r2, r3, left, a2.to_bytes().map_err(|e| e.kind()), v2::TypeLengthValue::new(k, &x[..x.len().min(12)]).to_bytes().map_err(|e| e.kind()))
        }
        21 => {
            let mut out = String::new();
            if let Ok(h) = v1::Header::try_from(x) {
                let mut slot = crate::c03::OTHER_V1.with(|o| o.clone());
                slot.clone_from(&h);
                let _ = write!(out, "{}|{:?}|{}", render_v1(&slot), slot, slot == h);
                let mut slot2 = crate::c03::OTHER_V1.with(|o| o.clone());
                slot2.clone_from(&h.to_owned());
                let _ = write!(out, "|{}|{}", render_v1(&slot2), slot2 == h);
                if slot != h || slot2 != h || render_v1(&slot) != render_v1(&h) || render_v1(&slot2) != render_v1(&h) {
                    let _ = write!(out, "|CLONE-FROM-MISMATCH: the source renders as {}", render_v1(&h));
                }
            }
            if let Ok(h) = v2::Header::try_from(x) {
                // a longer and a shorter owned header as the target
                let mut long = spec::v2::SIG.to_vec();
                long.extend_from_slice(&[0x21, 0x11, 0, 40]);
                long.extend_from_slice(&[0xAB; 40]);
                for img in [&long[..], &long[..16]] {
                    let mut t = img.to_vec();
                    if t.len() == 16 {
                        t[13] = 0;
                        t[15] = 0;
                    }
                    if let Ok(o) = v2::Header::try_from(&t[..]).map(|o| o.to_owned()) {
                        let mut slot = o.clone();
                        slot.clone_from(&h);
                        let _ = write!(out, "|{}|{}", render_v2(&slot), slot == h);
                        let mut slot2 = o;
                        slot2.clone_from(&h.to_owned());
                        let _ = write!(out, "|{}|{}", render_v2(&slot2), slot2 == h);
                        if slot != h || slot2 != h || render_v2(&slot) != render_v2(&h) || render_v2(&slot2) != render_v2(&h) || slot.as_bytes() != h.as_bytes() || slot2.as_bytes() != h.as_bytes() {
                            let _ = write!(out, "|CLONE-FROM-MISMATCH: the source renders as {}", render_v2(&h));
                        }
                    }
                }
            }
            out
        }
        17 => match v1::Header::try_from(x).map(|h| h.to_owned()) {
            Ok(o) => on_helper(Job::V1(o)),
            Err(_) => "-".into(),
        },
        18 => match v2::Header::try_from(x).map(|h| h.to_owned()) {
            Ok(o) => on_helper(Job::V2(o)),
            Err(_) => "-".into(),
        },
        _ => match fill_builder(x) {
            Ok(b) => on_helper(Job::Build(b)),
            Err(e) => format!("{:?}", e.kind()),
        },
    });
    r.unwrap_or_else(|m| format!("PANIC {}", m))
}

/// What ops 17..19 must equal: the same thing done on one thread.
fn same_thread_equivalent(op: usize, x: &[u8]) -> Option<String> {
    let r = guard(|| match op {
        17 => Some(v1::Header::try_from(x).map(|h| render_v1(&h.to_owned())).unwrap_or_else(|_| "-".into())),
        18 => Some(v2::Header::try_from(x).map(|h| render_v2(&h.to_owned())).unwrap_or_else(|_| "-".into())),
        19 => Some(format!("{:?}", fill_builder(x).and_then(|b| b.build()).map_err(|e| e.kind()))),
        _ => None,
    });
    r.unwrap_or_else(|m| Some(format!("PANIC {}", m)))
}

/// The pool of related inputs of one sequence.
fn pool(idx: u64, seed: u64) -> Vec<Vec<u8>> {
    let mut rng = Rng::for_case(seed, 0x50_0B, idx);
    let mut p: Vec<Vec<u8>> = Vec::new();
    match idx % 4 {
        0 | 1 => {
            let name = *rng.pick(&["v1-valid", "v1-valid", "v1-eol", "v1-mut", "v1-len", "v1-field"]);
            let x = spec::v1gen::v1_case(name, idx, seed);
            let h = spec::sib::v1_history(&x, idx);
            p.push(x);
            for y in h.into_iter().take(6) {
                if !p.contains(&y) {
                    p.push(y);
                }
            }
        }
        _ => {
            let mut b = Vec::new();
            let name = *rng.pick(&["v2-valid", "v2-valid", "v2-cut", "v2-mix"]);
            spec::v2::v2_case(name, idx, seed, &mut b);
            if b.len() > 2048 {
                b.clear();
                let (vc, fp) = spec::v2::valid_ctl(rng.below(24));
                spec::v2::valid_header_budget(&mut rng, &mut b, vc, fp, Some(60));
            }
            let h = spec::sib::v2_history(&b, idx);
            p.push(b);
            for y in h.into_iter().take(6) {
                if !p.contains(&y) {
                    p.push(y);
                }
            }
        }
    }
    if idx % 8 >= 6 {
        // one line and one binary header in the same pool
        let mut b = Vec::new();
        let (vc, fp) = spec::v2::valid_ctl(rng.below(24));
        spec::v2::valid_header_budget(&mut rng, &mut b, vc, fp, Some(40));
        p.push(b);
        p.push(spec::v1gen::v1_case("v1-valid", idx ^ 0x77, seed));
    }
    p
}

pub fn judge_soup(id: &str, idx: u64, seed: u64, rec: &mut Recorder) {
    let p = pool(idx, seed);
    let mut rng = Rng::for_case(seed, 0x50_0C, idx);
    let k = 3 + rng.below(5) as usize;
    // the sequence: a bias towards operations of this monitor's property, mixed with all others
    let own: Vec<usize> = (0..OPS.len()).filter(|&o| OPS[o].1.contains(&id)).collect();
    let seq: Vec<(usize, usize)> = (0..k)
        .map(|_| {
            let op = if !own.is_empty() && rng.chance(1, 3) { *rng.pick(&own[..]) } else { rng.below(OPS.len() as u64) as usize };
            (op, rng.below(p.len() as u64) as usize)
        })
        .collect();
    rec.case(spec::rng::mix(idx ^ 0x50_0D) ^ seed, true);
    // forward: in order, on this thread, every input copied to one and the same address
    let items: Vec<Vec<u8>> = seq.iter().map(|&(_, j)| p[j].clone()).collect();
    let mut fwd: Vec<String> = Vec::with_capacity(k);
    let mut i = 0;
    spec::engine::placed_seq(&items, idx, |y| {
        fwd.push(run_op(seq[i].0, y));
        i += 1;
    });
    // the same calls under another history: on the second thread, in reverse order, each after a
    // round of unrelated calls; one sequence in 64 instead with every call alone on a fresh thread
    let iso: Vec<String> = if idx % 64 == 63 {
        std::thread::scope(|sc| {
            let hs: Vec<_> = seq.iter().map(|&(op, j)| { let x = &p[j]; sc.spawn(move || run_op(op, x)) }).collect();
            hs.into_iter().map(|h| h.join().unwrap_or_else(|_| "PANIC: the isolated call killed its thread".to_string())).collect()
        })
    } else {
        let mut v = on_helper_seq(Job::Seq(seq.iter().map(|&(op, j)| (op, p[j].clone())).collect()));
        v.resize(k, "PANIC: the second thread did not answer".to_string());
        v
    };
    rec.events(2 * k as u64);
    let mut reported = false;
    // the one operation with a verdict of its own: `clone_from` makes the target equal to its source
    for (n, &(op, j)) in seq.iter().enumerate() {
        if op == 21 && OPS[op].1.contains(&id) && !reported {
            if let Some(at) = fwd[n].find("CLONE-FROM-MISMATCH") {
                reported = true;
                let lo = at.saturating_sub(160);
                let lo = (lo..=at).find(|&i| fwd[n].is_char_boundary(i)).unwrap_or(at);
                let hi = (at + 200).min(fwd[n].len());
                let hi = (hi..=fwd[n].len()).find(|&i| fwd[n].is_char_boundary(i)).unwrap_or(fwd[n].len());
                rec.violation(
                    "clone-from-differs",
                    format!("soup:{}:{}", idx, seed),
                    "soup|clone_from".into(),
                    format!("clone_from into an owned header that held something else does not give a copy of the header parsed from {:?}: ...{}...", spec::json::show(&p[j], 60), &fwd[n][lo..hi]),
                );
            }
        }
    }
    for (n, &(op, j)) in seq.iter().enumerate() {
        let relevant = OPS[op].1.contains(&id) || (id == "C03" && (fwd[n].contains("PANIC") || iso[n].contains("PANIC")));
        let mut other = &iso[n];
        let mut what = if idx % 64 == 63 { "alone on a fresh thread" } else { "on a second thread, after unrelated calls," };
        let same = same_thread_equivalent(op, &p[j]);
        if fwd[n] == iso[n] {
            if let Some(s) = &same {
                if *s != fwd[n] {
                    other = s;
                    what = "with the value produced and consumed on one thread";
                } else {
                    continue;
                }
            } else {
                continue;
            }
        }
        if !relevant || reported {
            continue;
        }
        reported = true;
        let at = fwd[n].bytes().zip(other.bytes()).position(|(a, b)| a != b).unwrap_or(fwd[n].len().min(other.len()));
        let cut = |t: &str| {
            let mut lo = at.saturating_sub(50);
            while !t.is_char_boundary(lo) {
                lo -= 1;
            }
            let mut hi = (at + 90).min(t.len());
            while !t.is_char_boundary(hi) {
                hi += 1;
            }
            t[lo..hi].to_string()
        };
        let history: Vec<String> = seq[..=n].iter().map(|&(o, jj)| format!("{} on {:?}", OPS[o].0, spec::json::show(&p[jj], 48))).collect();
        rec.violation(
            &format!("call-sequence:{}", OPS[op].0),
            format!("soup:{}:{}", idx, seed),
            format!("soup|{}", op),
            format!("call #{} of a sequence on one thread ({}) gives ...{}..., the same call {} gives ...{}... | sequence: {}", n + 1, OPS[op].0, cut(&fwd[n]), what, cut(other), history.join(" ; ")),
        );
    }
    if !reported {
        rec.class(&format!("call-soup|{} calls, in sequence = in isolation", k), || seq.iter().map(|&(o, _)| OPS[o].0).collect::<Vec<_>>().join(" ; "));
    }
}
