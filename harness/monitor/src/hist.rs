//! Executes a `spec::build::History` against the real `ppp::v2::Builder`, one event per call.

use crate::adapt::guard;
use ppp::v2::{self, Builder, WriteToHeader, Writer};
use spec::build::{Addr, Ctor, History, Op, Val};
use std::io;

pub const TYPES: [v2::Type; 12] = [
    v2::Type::ALPN,
    v2::Type::Authority,
    v2::Type::CRC32C,
    v2::Type::NoOp,
    v2::Type::UniqueId,
    v2::Type::SSL,
    v2::Type::SSLVersion,
    v2::Type::SSLCommonName,
    v2::Type::SSLCipher,
    v2::Type::SSLSignatureAlgorithm,
    v2::Type::SSLKeyAlgorithm,
    v2::Type::NetworkNamespace,
];

pub fn to_addresses(a: &Addr) -> v2::Addresses {
    match a {
        Addr::Unspec => v2::Addresses::Unspecified,
        Addr::V4 { src, dst, sp, dp } => v2::Addresses::IPv4(v2::IPv4::new(*src, *dst, *sp, *dp)),
        Addr::V6 { src, dst, sp, dp } => v2::Addresses::IPv6(v2::IPv6::new(*src, *dst, *sp, *dp)),
        Addr::Unix { seed } => {
            let (s, d) = Addr::unix_paths(*seed);
            v2::Addresses::Unix(v2::Unix::new(s, d))
        }
    }
}

/// One batch element: delegates to ppp's own `WriteToHeader` impl of the wrapped value.
pub enum Item<'a> {
    U8(u8),
    U16(u16),
    U32(u32),
    U64(u64),
    U128(u128),
    Usize(usize),
    I8(i8),
    I16(i16),
    I32(i32),
    I64(i64),
    I128(i128),
    Isize(isize),
    Bytes(&'a [u8]),
    Addr(v2::Addresses),
    Tlv(v2::TypeLengthValue<'a>),
    Tuple(u8, &'a [u8]),
    TupleT(v2::Type, &'a [u8]),
    Section(v2::TypeLengthValues<'a>),
    Type(v2::Type),
    Custom(Custom<'a>),
}

/// A caller-defined payload type (see `spec::build::Val::Custom`).
pub struct Custom<'a> {
    pub bytes: &'a [u8],
    pub mode: u8,
}

impl<'a> WriteToHeader for Custom<'a> {
    fn write_to(&self, w: &mut Writer) -> io::Result<usize> {
        use std::io::Write;
        match self.mode {
            1 => w.write_all(self.bytes).map(|_| 0),
            2 => w.write_all(self.bytes).map(|_| self.bytes.len() + 7),
            3 => {
                let mut calls = 0;
                for b in self.bytes {
                    w.write_all(std::slice::from_ref(b))?;
                    calls += 1;
                }
                Ok(calls / 2)
            }
            4 => {
                let (a, b) = self.bytes.split_at(self.bytes.len() / 2);
                w.write_all(a)?;
                w.write(b)
            }
            // the payload held in a fixed-size array, written with method-call syntax on the array
            // (it unsizes to the slice impl, 65535-byte limit included)
            5 => match self.bytes.len() {
                3 => <&[u8; 3]>::try_from(self.bytes).unwrap().write_to(w),
                300 => <&[u8; 300]>::try_from(self.bytes).unwrap().write_to(w),
                65535 => <&[u8; 65535]>::try_from(self.bytes).unwrap().write_to(w),
                65536 => <&[u8; 65536]>::try_from(self.bytes).unwrap().write_to(w),
                _ => self.bytes.write_to(w),
            },
            _ => w.write_all(self.bytes).map(|_| self.bytes.len()),
        }
    }
}

impl<'a> WriteToHeader for Item<'a> {
    fn write_to(&self, w: &mut Writer) -> io::Result<usize> {
        match self {
            Item::U8(x) => x.write_to(w),
            Item::U16(x) => x.write_to(w),
            Item::U32(x) => x.write_to(w),
            Item::U64(x) => x.write_to(w),
            Item::U128(x) => x.write_to(w),
            Item::Usize(x) => x.write_to(w),
            Item::I8(x) => x.write_to(w),
            Item::I16(x) => x.write_to(w),
            Item::I32(x) => x.write_to(w),
            Item::I64(x) => x.write_to(w),
            Item::I128(x) => x.write_to(w),
            Item::Isize(x) => x.write_to(w),
            Item::Bytes(b) => b.write_to(w),
            Item::Addr(a) => a.write_to(w),
            Item::Tlv(t) => t.write_to(w),
            Item::Tuple(k, b) => (*k, *b).write_to(w),
            Item::TupleT(k, b) => (*k, *b).write_to(w),
            Item::Section(s) => s.write_to(w),
            Item::Type(t) => t.write_to(w),
            Item::Custom(c) => c.write_to(w),
        }
    }
}

/// Materialised payload bytes of a value (empty for values without a blob).
pub fn blob_bytes(v: &Val) -> Vec<u8> {
    match v {
        Val::Custom(b, _) | Val::Bytes(b) | Val::TlvStruct(_, b) | Val::TlvOwned(_, b) | Val::TlvTuple(_, b) | Val::TlvTupleType(_, b) | Val::Section(b) | Val::SectionAdv(b, _) => b.bytes(),
        _ => Vec::new(),
    }
}

pub fn item<'a>(v: &Val, bytes: &'a [u8]) -> Item<'a> {
    match v {
        Val::U8(x) => Item::U8(*x),
        Val::U16(x) => Item::U16(*x),
        Val::U32(x) => Item::U32(*x),
        Val::U64(x) => Item::U64(*x),
        Val::U128(x) => Item::U128(*x),
        Val::Usize(x) => Item::Usize(*x),
        Val::I8(x) => Item::I8(*x),
        Val::I16(x) => Item::I16(*x),
        Val::I32(x) => Item::I32(*x),
        Val::I64(x) => Item::I64(*x),
        Val::I128(x) => Item::I128(*x),
        Val::Isize(x) => Item::Isize(*x),
        Val::Bytes(_) => Item::Bytes(bytes),
        Val::Addr(a) => Item::Addr(to_addresses(a)),
        Val::TlvStruct(k, _) => Item::Tlv(v2::TypeLengthValue::new(*k, bytes)),
        Val::TlvOwned(k, _) => Item::Tlv(v2::TypeLengthValue::new(*k, bytes).to_owned()),
        Val::TlvTuple(k, _) => Item::Tuple(*k, bytes),
        Val::TlvTupleType(t, _) => Item::TupleT(TYPES[*t], bytes),
        Val::Section(_) => Item::Section(v2::TypeLengthValues::from(bytes)),
        Val::SectionAdv(_, k) => Item::Section(advanced(bytes, *k)),
        Val::Type(t) => Item::Type(TYPES[*t]),
        Val::Custom(_, m) => Item::Custom(Custom { bytes, mode: *m }),
    }
}

/// A TLV section whose iterator has been advanced `k` times.
pub fn advanced(bytes: &[u8], k: u8) -> v2::TypeLengthValues<'_> {
    let mut t = v2::TypeLengthValues::from(bytes);
    for _ in 0..k {
        let _ = t.next();
    }
    t
}

/// write_payload with the value's own Rust type (not through `Item`).
fn write_val(b: Builder, v: &Val) -> io::Result<Builder> {
    let bytes = blob_bytes(v);
    match v {
        Val::U8(x) => b.write_payload(*x),
        Val::U16(x) => b.write_payload(*x),
        Val::U32(x) => b.write_payload(*x),
        Val::U64(x) => b.write_payload(*x),
        Val::U128(x) => b.write_payload(*x),
        Val::Usize(x) => b.write_payload(*x),
        Val::I8(x) => b.write_payload(*x),
        Val::I16(x) => b.write_payload(*x),
        Val::I32(x) => b.write_payload(*x),
        Val::I64(x) => b.write_payload(*x),
        Val::I128(x) => b.write_payload(*x),
        Val::Isize(x) => b.write_payload(*x),
        Val::Bytes(_) => b.write_payload(bytes.as_slice()),
        Val::Addr(a) => b.write_payload(to_addresses(a)),
        Val::TlvStruct(k, _) => b.write_payload(v2::TypeLengthValue::new(*k, bytes.as_slice())),
        Val::TlvOwned(k, _) => b.write_payload(v2::TypeLengthValue::new(*k, bytes.as_slice()).to_owned()),
        Val::TlvTuple(k, _) => b.write_payload((*k, bytes.as_slice())),
        Val::TlvTupleType(t, _) => b.write_payload((TYPES[*t], bytes.as_slice())),
        Val::Section(_) => b.write_payload(v2::TypeLengthValues::from(bytes.as_slice())),
        Val::SectionAdv(_, k) => b.write_payload(advanced(bytes.as_slice(), *k)),
        Val::Type(t) => b.write_payload(TYPES[*t]),
        Val::Custom(_, m) => b.write_payload(Custom { bytes: bytes.as_slice(), mode: *m }),
    }
}

fn apply(b: Builder, op: &Op, variant: u64) -> io::Result<Builder> {
    match op {
        Op::Reserve(n) => Ok(b.reserve_capacity(*n)),
        Op::SetLength(Some(v)) => Ok(b.set_length(*v)),
        Op::SetLength(None) => Ok(b.set_length(None)),
        Op::Write(v) => write_val(b, v),
        Op::WriteTlv(k, blob) => b.write_tlv(*k, blob.bytes().as_slice()),
        Op::WriteTlvType(t, blob) => b.write_tlv(TYPES[*t], blob.bytes().as_slice()),
        Op::Batch(vs) => {
            let store: Vec<Vec<u8>> = vs.iter().map(blob_bytes).collect();
            let items: Vec<Item<'_>> = vs.iter().zip(store.iter()).map(|(v, s)| item(v, s.as_slice())).collect();
            // the same batch through iterators with different size hints
            match variant % 6 {
                0 => b.write_payloads(items.iter()),
                1 => b.write_payloads(items.iter().filter(|_| true)),
                2 => {
                    let mut i = 0;
                    b.write_payloads(std::iter::from_fn(|| {
                        i += 1;
                        items.get(i - 1)
                    }))
                }
                4 => {
                    // a re-entrant batch: while it produces its items the iterator builds another
                    // header with a batch of its own (a child header carried as a value, say)
                    b.write_payloads(items.iter().inspect(|_| {
                        let _ = Builder::new(0x21, 0x00).write_payloads([0xA5u8, 0x5A].iter()).and_then(|x| x.write_payloads([7u16].iter())).and_then(|x| x.build());
                    }))
                }
                5 => {
                    // an earlier batch on this thread was aborted by a panic in its iterator after
                    // one item (the panic is caught, as a task runtime would)
                    let _ = crate::adapt::guard(|| {
                        let mut n = 0;
                        let _ = Builder::new(0x21, 0x00).write_payloads(std::iter::from_fn(|| {
                            n += 1;
                            if n > 1 {
                                panic!("iterator failed");
                            }
                            Some(0xEEu8)
                        }));
                    });
                    b.write_payloads(items.iter())
                }
                _ => b.write_payloads(items.iter().collect::<Vec<_>>()),
            }
        }
    }
}

pub fn construct(ctor: &Ctor, variant: u64) -> Builder {
    match ctor {
        Ctor::New(vc, fp) => {
            // valid codes go through the BitOr impls, in both operand orders
            let fam = match fp >> 4 {
                0 => Some(v2::AddressFamily::Unspecified),
                1 => Some(v2::AddressFamily::IPv4),
                2 => Some(v2::AddressFamily::IPv6),
                3 => Some(v2::AddressFamily::Unix),
                _ => None,
            };
            let fpb = match (fam, fp & 0x0F) {
                (Some(f), t) if t <= 2 => {
                    if variant % 2 == 0 {
                        f | crate::adapt::tr_of(t)
                    } else {
                        crate::adapt::tr_of(t) | f
                    }
                }
                _ => *fp,
            };
            Builder::new(vc_byte(*vc, variant), fpb)
        }
        Ctor::WithAddr(vc, tr, addr) => {
            // with_addresses takes anything that converts into Addresses: for IP families every
            // third variant hands over a pair of socket addresses instead of the value
            let vcb = vc_byte(*vc, variant);
            let pr = crate::adapt::tr_of(*tr);
            match addr {
                Addr::V4 { src, dst, sp, dp } if variant % 3 == 2 => {
                    let s = std::net::SocketAddr::from((std::net::Ipv4Addr::from(*src), *sp));
                    let d = std::net::SocketAddr::from((std::net::Ipv4Addr::from(*dst), *dp));
                    Builder::with_addresses(vcb, pr, (s, d))
                }
                Addr::V6 { src, dst, sp, dp } if variant % 3 == 2 => {
                    let s = std::net::SocketAddr::from((std::net::Ipv6Addr::from(*src), *sp));
                    let d = std::net::SocketAddr::from((std::net::Ipv6Addr::from(*dst), *dp));
                    Builder::with_addresses(vcb, pr, (s, d))
                }
                Addr::V4 { src, dst, sp, dp } if variant % 3 == 1 => Builder::with_addresses(vcb, pr, v2::IPv4::new(*src, *dst, *sp, *dp)),
                Addr::V6 { src, dst, sp, dp } if variant % 3 == 1 => Builder::with_addresses(vcb, pr, v2::IPv6::new(*src, *dst, *sp, *dp)),
                _ => Builder::with_addresses(vcb, pr, to_addresses(addr)),
            }
        }
    }
}

fn vc_byte(vc: u8, variant: u64) -> u8 {
    if vc == 0x20 || vc == 0x21 {
        let c = crate::adapt::cmd_of(vc & 1);
        if (variant / 2) % 2 == 0 {
            v2::Version::Two | c
        } else {
            c | v2::Version::Two
        }
    } else {
        vc
    }
}

#[derive(Debug, Clone, PartialEq)]
pub enum Exec {
    Built(Vec<u8>),
    /// failed at op index (ops.len() = the final build call)
    FailedAt(usize, String),
    Panic(String),
}

/// State observed through the `verif` hook after each call: (buffer if created, explicit length).
pub type Observed = (Option<Vec<u8>>, Option<u16>);

#[cfg(feature = "hooks")]
fn observe(b: &Builder) -> Option<Observed> {
    let (buf, len) = b.verif_state();
    Some((buf.map(|s| s.to_vec()), len))
}
#[cfg(not(feature = "hooks"))]
fn observe(_b: &Builder) -> Option<Observed> {
    None
}

/// Runs the history. `on_step(i, state)` is called after call `i` succeeded (when hooks are
/// compiled in), `upto` limits the number of ops executed before `build` (for prefix builds).
pub fn exec(h: &History, variant: u64, upto: usize, on_step: &mut dyn FnMut(usize, &Observed)) -> Exec {
    exec_opt(h, variant, upto, true, on_step)
}

/// `exec` without the per-call state observation (which copies the buffer after every call).
pub fn exec_plain(h: &History, variant: u64) -> Exec {
    exec_opt(h, variant, usize::MAX, false, &mut |_, _| {})
}

fn exec_opt(h: &History, variant: u64, upto: usize, watch: bool, on_step: &mut dyn FnMut(usize, &Observed)) -> Exec {
    match guard(|| {
        let mut b = construct(&h.ctor, variant);
        for (i, op) in h.ops.iter().take(upto).enumerate() {
            b = match apply(b, op, variant.wrapping_add(i as u64)) {
                Ok(b) => b,
                Err(e) => return Exec::FailedAt(i, format!("{:?}", e.kind())),
            };
            if watch {
                if let Some(st) = observe(&b) {
                    on_step(i, &st);
                }
            }
        }
        match b.build() {
            Ok(v) => Exec::Built(v),
            Err(e) => Exec::FailedAt(h.ops.len().min(upto), format!("{:?}", e.kind())),
        }
    }) {
        Ok(e) => e,
        Err(m) => Exec::Panic(m),
    }
}
