//! C17 — v2 incomplete errors state exactly how many bytes are present and needed.

use crate::adapt::*;
use crate::c02::with_big;
use ppp::v2;
use spec::engine::{exhaustive, stream, Monitor, StreamSpec, Tier};
use spec::json::show;
use spec::record::Recorder;
use spec::rng::{mix, Rng};
use spec::v2::{fam_size, valid_ctl, V2Ref};

pub struct C17;

/// 2048-value length ladder: everything below 300, powers of two +-1, multiples of 4093, top values.
fn ladder(i: u64) -> u16 {
    let i = i % 2048;
    if i < 300 {
        return i as u16;
    }
    let j = i - 300;
    if j < 48 {
        let p = 1u32 << (j / 3 + 1);
        return (p as i64 + (j % 3) as i64 - 1).clamp(0, 65535) as u16;
    }
    if j < 64 {
        return (65535 - (j - 48)) as u16;
    }
    ((j * 4093) % 65536) as u16
}

fn expect_class(e: &V2Ref) -> &'static str {
    match e {
        V2Ref::Incomplete(_) => "incomplete(k)",
        V2Ref::Partial(..) => "partial(have,need)",
        V2Ref::Ok { .. } => "ok",
        _ => "other",
    }
}

fn judge_one(input: &[u8], expect: V2Ref, what: &str, rec: &mut Recorder) {
    rec.event();
    let got = guard(|| v2::Header::try_from(input).map(|h| h.len()));
    let ok = match (&got, &expect) {
        (Ok(Ok(n)), V2Ref::Ok { total, .. }) => n == total,
        (Ok(Err(e)), exp) => v2_err_ref(e) == Some(*exp) && {
            use ppp::PartialResult;
            e.is_incomplete() && !e.is_complete()
        },
        _ => false,
    };
    // "leaves it incomplete": the same verdict as seen through the auto-detecting entry point,
    // whose completeness flags a receiver loop reads (it delegates to the v2 parser for every
    // input that starts with the signature)
    if ok && !matches!(expect, V2Ref::Ok { .. }) {
        rec.event();
        let a = auto_parse(input);
        let fine = match &a {
            OA::V2(o) => !o.is_ok() && matches!(o.flags(), Some((true, false))),
            // fewer than 12 bytes of signature: the text parser may have been asked; it must not have a final verdict either
            OA::V1(o) => input.len() < 12 && !o.is_ok() && matches!(o.flags(), Some((true, false))),
            OA::Panic(_) => false,
        };
        if !fine && input.len() >= 12 {
            let declared = if input.len() >= 16 { u16::from_be_bytes([input[14], input[15]]) as usize } else { 0 };
            rec.violation(
                &format!("{}:auto-flags", what),
                enc_case("v2", &input[..input.len().min(70_100)]),
                format!("{}|auto|{}", what, if input.len() < 16 { "fixed-part" } else { "payload" }),
                format!("{}: header {:?} declared length {} with {} bytes present is {:?} for the v2 parser, but HeaderResult::parse gives {} (must be flagged incomplete)", what, show(&input[..input.len().min(20)], 20), declared, input.len(), expect, a.class()),
            );
            return;
        }
    }
    if ok {
        rec.class(&format!("{}|{}", what, expect_class(&expect)), || format!("{} ({} bytes present) -> {:?}", show(&input[..input.len().min(20)], 20), input.len(), expect));
    } else {
        let declared = if input.len() >= 16 { u16::from_be_bytes([input[14], input[15]]) as usize } else { 0 };
        rec.violation(
            &format!("{}:{}", what, expect_class(&expect)),
            enc_case("v2", &input[..input.len().min(70_100)]),
            format!("{}|{}", what, if input.len() < 16 { "fixed-part" } else { "payload" }),
            format!("{}: header {:?} declared length {} with {} bytes present: expected {:?}, got {:?}", what, show(&input[..input.len().min(20)], 20), declared, input.len(), expect, got),
        );
    }
}

/// The statement taken literally, for ANY input: if the parser reports Incomplete(n) then n is
/// the number of bytes supplied; if it reports Partial(have, need) then have = bytes after the
/// fixed part, need = declared length, and supplying exactly need - have more bytes (any values)
/// gives a success of 16 + need bytes.
pub fn follow_through(input: &[u8], what: &str, rec: &mut Recorder) {
    follow(input, what, true, rec)
}

/// `complete = false`: one call only - the counts of whatever incomplete result comes back.
pub fn follow(input: &[u8], what: &str, complete: bool, rec: &mut Recorder) {
    rec.event();
    let got = guard(|| v2::Header::try_from(input).map(|h| h.len()));
    let viol = |rec: &mut Recorder, rule: &str, d: String| {
        rec.violation(
            &format!("{}:{}", rule, what),
            enc_case("v2", &input[..input.len().min(70_100)]),
            format!("{}|{}", what, if input.len() < 16 { "fixed-part" } else { "payload" }),
            format!("{} on {:?} ({} bytes present): {}", rule, show(&input[..input.len().min(20)], 20), input.len(), d),
        );
    };
    match got {
        Ok(Err(v2::ParseError::Incomplete(n))) => {
            if n != input.len() || input.len() >= 16 {
                viol(rec, "incomplete-count", format!("Incomplete({}) reported", n));
            } else {
                rec.class("any-input|Incomplete(k) exact", || show(input, 20));
            }
        }
        Ok(Err(v2::ParseError::Partial(have, need))) => {
            let declared = if input.len() >= 16 { u16::from_be_bytes([input[14], input[15]]) as usize } else { usize::MAX };
            if input.len() < 16 || have != input.len() - 16 || need != declared || have >= need {
                viol(rec, "partial-counts", format!("Partial({}, {}) reported, {} payload bytes present, declared length {}", have, need, input.len().saturating_sub(16), declared));
                return;
            }
            if !complete {
                return;
            }
            let mut buf = input.to_vec();
            buf.resize(16 + need, 0xA5);
            rec.event();
            match guard(|| v2::Header::try_from(buf.as_slice()).map(|h| h.len())) {
                Ok(Ok(n)) if n == 16 + need => rec.class("any-input|Partial completed -> Ok", || show(input, 20)),
                other => viol(rec, "completion-not-success", format!("Partial({}, {}) was reported, but after supplying exactly the {} missing bytes the result is {:?}", have, need, need - have, other)),
            }
        }
        _ => rec.class("any-input|not-incomplete", || show(input, 20)),
    }
}

fn case(pair: u64, len: u16, seed: u64, rec: &mut Recorder) {
    let (vc, fp) = valid_ctl(pair);
    let fam = fp >> 4;
    let size = fam_size(fam).unwrap_or(0);
    let l = len as usize;
    if l < size {
        // declared length too small for the family: the header can never be accepted, so the
        // parser must not report it incomplete - if it does, the statement obliges it to succeed
        // once exactly the missing bytes are supplied
        rec.case(mix(pair << 20 | l as u64), true);
        rec.class("oracle:length<family-size", || format!("pair {:02x} {:02x} length {}", vc, fp, l));
        with_big(vc, fp, len, |big| {
            for k in [16usize, 16 + l / 2, (16 + l).saturating_sub(1).max(16)] {
                follow_through(&big[..k], "length<family-size", rec);
            }
        });
        return;
    }
    rec.case(mix(pair << 20 | l as u64), true);
    rec.class(if l == 0 { "oracle:length=0" } else if l == 65535 { "oracle:length=65535" } else { "oracle:length>0" }, || format!("pair {:02x} {:02x} length {}", vc, fp, l));
    let mut rng = Rng::for_case(seed, pair, l as u64);
    // payload content: the per-thread random buffer, or an address block built from address
    // values (special classes, equal endpoints), or a payload that itself begins with the
    // signature; what has been supplied so far must not matter to the counts
    crate::c02::BIG.with(|b| {
        let mut b = b.borrow_mut();
        match rng.below(6) {
            4 | 5 => {
                // everything received so far is well-formed: the TLV bytes up to 16 bytes before
                // the end (resp. up to the byte-swapped length) are one complete TLV, the rest
                // another - a cut there falls on a TLV boundary
                let blk = spec::v2::address_block(&mut rng, fam);
                b[16..16 + blk.len()].copy_from_slice(&blk);
                let sw = ((l & 0xFF) << 8) | (l >> 8);
                let cut = if sw < l && sw >= size + 3 && rng.coin() { sw } else { l.saturating_sub(16) };
                if fam != 0 && cut >= size + 3 && cut < l {
                    let n = cut - size - 3;
                    let at = 16 + size;
                    b[at] = *rng.pick(&[0x04u8, 0x01, 0x05, 0x20, 0xEE]);
                    b[at + 1] = (n >> 8) as u8;
                    b[at + 2] = n as u8;
                    let rest = l - cut;
                    if rest >= 3 {
                        let at2 = 16 + cut;
                        b[at2] = 0x04;
                        b[at2 + 1] = ((rest - 3) >> 8) as u8;
                        b[at2 + 2] = (rest - 3) as u8;
                    }
                }
            }
            0 => {
                let blk = spec::v2::address_block(&mut rng, fam);
                b[16..16 + blk.len()].copy_from_slice(&blk);
            }
            1 => {
                b[16..28].copy_from_slice(&spec::v2::SIG);
            }
            2 => {
                let at = 16 + size;
                b[at..at + 12].copy_from_slice(&spec::v2::SIG);
            }
            _ => rng.fill(&mut b[16..16 + 240]),
        }
    });
    with_big(vc, fp, len, |big| {
        // before the fixed part is complete: the number of bytes supplied
        for k in 0..16 {
            judge_one(&big[..k], V2Ref::Incomplete(k), "truncated", rec);
        }
        if l == 0 {
            judge_one(&big[..16], V2Ref::Ok { total: 16, cmd: vc & 1, fam, tr: fp & 15 }, "complete", rec);
            return;
        }
        // afterwards: payload bytes present and the declared payload length
        let mut presents = vec![16, 16 + l - 1, 16 + l / 2];
        if l > 1 {
            presents.push(17);
        }
        // natural cut points: the end of the address block of each family, 12 bytes into the payload
        for cut in [12usize, 36, 216, 28, 32] {
            if cut < l {
                presents.push(16 + cut);
            }
        }
        // cuts related to the length field itself: 16 bytes short (a sender that counted the fixed
        // part), the length with its two bytes exchanged, half and a quarter of it
        let sw = ((l & 0xFF) << 8) | (l >> 8);
        for cut in [l.saturating_sub(16), sw, l / 4, l.saturating_sub(4), l.saturating_sub(3)] {
            if cut < l {
                presents.push(16 + cut);
            }
        }
        for _ in 0..3 {
            presents.push(16 + rng.below(l as u64) as usize);
        }
        presents.sort();
        presents.dedup();
        for &k in &presents {
            judge_one(&big[..k], V2Ref::Partial(k - 16, l), "truncated", rec);
        }
        // supplying exactly the missing bytes, whatever their values, completes the header;
        // supplying fewer leaves it incomplete with updated counts
        let k = *rng.pick(&presents);
        let missing = 16 + l - k;
        let fills: [Option<u8>; 3] = [Some(0x00), Some(0xFF), None];
        let mut buf = Vec::with_capacity(16 + l);
        for fill in fills {
            buf.clear();
            buf.extend_from_slice(&big[..k]);
            match fill {
                Some(b) => buf.resize(16 + l, b),
                None => {
                    buf.resize(16 + l, 0);
                    let head = (k + 256).min(buf.len());
                    rng.fill(&mut buf[k..head]);
                }
            }
            judge_one(&buf, V2Ref::Ok { total: 16 + l, cmd: vc & 1, fam, tr: fp & 15 }, "completed-with-exactly-the-missing-bytes", rec);
            if missing > 1 {
                let j = 1 + rng.below(missing as u64 - 1) as usize; // 1..missing-1 fewer... at least one byte short
                buf.truncate(16 + l - j);
                judge_one(&buf, V2Ref::Partial(l - j, l), "supplied-fewer-than-missing", rec);
            }
        }
        // the connection is abandoned mid-header: the last thing this thread's receive buffer saw
        // of it is an unfinished header (the next case rewrites the buffer in place)
        judge_one(&big[..16], V2Ref::Partial(0, l), "truncated", rec);
        if l > 1 && (l ^ pair as usize) & 1 == 1 {
            judge_one(&big[..17], V2Ref::Partial(1, l), "truncated", rec);
        }
    });
}

impl Monitor for C17 {
    fn id(&self) -> &'static str {
        "C17"
    }
    fn rule(&self) -> &'static str {
        "cases = (valid control pair, declared length) with the length at least the family's address size: 24 pairs x a 2048-value length ladder (all lengths below 300, powers of two +-1, the top 16 values, multiples of 4093) in quick, 24 x all 65536 lengths in thorough; per case the header is cut at every k < 16 (must be Incomplete(k)) and at 16, 17, 16+L-1, 16+L/2, after 12/28/32/36/216 payload bytes and at 3 random points (must be Partial(k-16, L)), then completed with exactly the missing number of 0x00 / 0xFF / random bytes (must be Ok of 16+L bytes) and with fewer (must be Partial with the updated count); every error must also be flagged incomplete; for declared lengths below the family size, and for every input of a second stream drawn from the v2 workload (control x length ladder samples, cuts, random bytes, mixes), the statement is applied literally: whatever the parser flags Incomplete(n)/Partial(have,need) must carry exact counts and a Partial must turn into a success of 16+need bytes once exactly need-have bytes are appended; non-trivial = input starting with the signature; distinct = distinct (pair, length) / inputs"
    }
    fn streams(&self, tier: Tier) -> Vec<StreamSpec> {
        match tier {
            Tier::Miri => vec![exhaustive("c17-ladder", 48), stream("c17-any", 100)],
            Tier::Quick => vec![exhaustive("c17-ladder", 24 * 2048), stream("c17-any", 2_000_000)],
            Tier::Thorough => vec![exhaustive("c17-all", 24 * 65536), stream("c17-any", 200_000_000)],
        }
    }
    fn run_case(&self, stream: &str, idx: u64, seed: u64, rec: &mut Recorder) {
        if stream == "c17-any" {
            let names = ["v2-ctl-s", "v2-ctl-s", "v2-cut", "v2-rand", "v2-mix", "v2-valid"];
            // one case in 512: a header of the fingerprint-collision workload (spec::collide)
            let name = if idx % 512 == 511 { "v2-collide" } else { names[(idx % 6) as usize] };
            crate::c02::SCRATCH.with(|b| {
                let mut b = b.borrow_mut();
                spec::v2::v2_case(name, idx, seed, &mut b);
                rec.case(spec::rng::hash_bytes(&b[..b.len().min(64)]) ^ b.len() as u64, b.len() >= 12 && b[..12] == spec::v2::SIG);
                spec::sib::run_v2_two_pass(&b, idx, 3, |x, light| follow(x, "any-input", !light, rec));
            });
            return;
        }
        if stream == "c17-all" {
            case(idx >> 16, idx as u16, seed, rec);
        } else {
            case(idx % 24, ladder(idx / 24), seed, rec);
        }
    }
    fn floor(&self, tier: Tier) -> Vec<&'static str> {
        if tier == Tier::Miri {
            return vec!["oracle:length>0"];
        }
        vec!["oracle:length=0", "oracle:length>0", "oracle:length=65535", "oracle:length<family-size"]
    }
    fn replay(&self, case_s: &str, rec: &mut Recorder) {
        // replay: the expectation is recomputed by the oracle for the recorded input
        if let Some((_, bytes)) = dec_case(case_s) {
            let exp = spec::v2::v2_ref(&bytes);
            if exp.is_incomplete() || exp.is_ok() {
                judge_one(&bytes, exp, "replay", rec);
            }
        }
    }
}
