//! C02 — v2 parser accepts exactly the well-formed headers and decodes them faithfully.
//! Differential monitor: real parse result vs the table-driven oracle `spec::v2::v2_ref`.

use crate::adapt::*;
use ppp::v2;
use spec::engine::{exhaustive, Monitor, StreamSpec, Tier};
use spec::json::show;
use spec::record::Recorder;
use spec::rng::{hash_bytes, mix, Rng};
use spec::v2::{fam_size, v2_case, v2_ref, v2_streams, valid_ctl, V2Ref, SIG};
use std::cell::RefCell;

pub struct C02;

thread_local! {
    /// 16 + 65535 random bytes behind a valid signature; bytes 12..16 are rewritten per case
    pub static BIG: RefCell<Vec<u8>> = RefCell::new({
        let mut v = Rng::new(0xB16B).bytes(16 + 65535);
        v[..12].copy_from_slice(&SIG);
        v
    });
    pub static SCRATCH: RefCell<Vec<u8>> = const { RefCell::new(Vec::new()) };
}

pub fn skeleton_v2(input: &[u8]) -> String {
    if input.len() >= 16 && input[..12] == SIG {
        format!("sig|{:02x}|{:02x}|len{}|present{}", input[12], input[13], match u16::from_be_bytes([input[14], input[15]]) {
            0 => "=0".to_string(),
            l if (l as usize) < 12 => "<12".to_string(),
            l if (l as usize) < 36 => "<36".to_string(),
            l if (l as usize) < 216 => "<216".to_string(),
            _ => ">=216".to_string(),
        }, if input.len() >= 16 + u16::from_be_bytes([input[14], input[15]]) as usize { "full" } else { "short" })
    } else {
        format!("nosig|len{}", input.len().min(20))
    }
}

/// Judges one parse of `input`; returns true when the oracle accepts.
pub fn judge(input: &[u8], rec: &mut Recorder, hash: u64) -> bool {
    let or = v2_ref(input);
    let nontrivial = !matches!(or, V2Ref::Prefix | V2Ref::Version(_));
    rec.case(hash, nontrivial);
    rec.event();
    rec.class(oracle_only_class(&or), || show(&input[..input.len().min(48)], 48));
    let r = guard(|| v2::Header::try_from(input));
    let viol = |rec: &mut Recorder, rule: &str, detail: String| {
        // replay input: the header part and a little more is enough (the parser must not look further)
        let keep = match or {
            V2Ref::Ok { total, .. } => (total + 8).min(input.len()),
            _ => input.len(),
        };
        rec.violation(rule, enc_case("v2", &input[..keep]), skeleton_v2(input), format!("{} on {}: {}", rule, show(&input[..input.len().min(40)], 40), detail));
    };
    match &r {
        Err(m) => {
            rec.class_n(&format!("pair:{}|PANIC", or.class()), 1, || show(input, 48));
            if or.is_ok() {
                viol(rec, "wrongly-rejected", format!("well-formed header panics: {}", m));
            }
        }
        Ok(Err(e)) => {
            rec.class(if or.is_ok() { "pair:ok|Err" } else { err_class(&or) }, || format!("{} -> {:?}", show(input, 48), e));
            if or.is_ok() {
                viol(rec, "wrongly-rejected", format!("well-formed header rejected with {:?}", e));
            }
        }
        Ok(Ok(h)) => {
            match or {
                V2Ref::Ok { total, cmd, fam, tr } => {
                    rec.class(ok_class(fam), || show(input, 48));
                    if h.header.len() != total || (h.header.as_ptr() != input.as_ptr() && h.header.as_ref() != &input[..total]) {
                        viol(rec, "header-bytes", format!("reported {} header bytes, expected the first {}", h.header.len(), total));
                    }
                    if cmd_code(h.command) != cmd || tr_code(h.protocol) != tr || h.version != v2::Version::Two {
                        viol(rec, "decode-control", format!("reported command {:?} transport {:?}, wire says command {} transport {}", h.command, h.protocol, cmd, tr));
                    }
                    let (gfam, gaddr) = a2_wire(&h.addresses);
                    let size = fam_size(fam).unwrap_or(0);
                    if gfam != fam || gaddr != input[16..16 + size] {
                        viol(rec, "decode-address", format!("decoded {:?}, wire family {} block {}", h.addresses, fam, show(&input[16..16 + size.min(40)], 40)));
                    }
                }
                _ => {
                    rec.class_n(&format!("pair:{}|Ok", or.class()), 1, || show(input, 48));
                    viol(rec, "wrongly-accepted", format!("oracle says {:?}, parser accepted {} header bytes", or, h.header.len()));
                }
            }
        }
    }
    or.is_ok()
}

fn oracle_only_class(or: &V2Ref) -> &'static str {
    match or {
        V2Ref::Ok { fam: 0, .. } => "oracle:ok-unspec",
        V2Ref::Ok { fam: 1, .. } => "oracle:ok-ipv4",
        V2Ref::Ok { fam: 2, .. } => "oracle:ok-ipv6",
        V2Ref::Ok { .. } => "oracle:ok-unix",
        V2Ref::Incomplete(_) => "oracle:incomplete",
        V2Ref::Partial(..) => "oracle:partial",
        V2Ref::Prefix => "oracle:prefix",
        V2Ref::Version(_) => "oracle:version",
        V2Ref::Command(_) => "oracle:command",
        V2Ref::Family(_) => "oracle:family",
        V2Ref::Transport(_) => "oracle:transport",
        V2Ref::InvalidAddresses(..) => "oracle:invalid-addresses",
    }
}

fn ok_class(fam: u8) -> &'static str {
    match fam {
        0 => "pair:ok-unspec|Ok",
        1 => "pair:ok-ipv4|Ok",
        2 => "pair:ok-ipv6|Ok",
        _ => "pair:ok-unix|Ok",
    }
}

fn err_class(or: &V2Ref) -> &'static str {
    match or {
        V2Ref::Ok { .. } => "pair:ok|Err",
        V2Ref::Incomplete(_) => "pair:incomplete|Err",
        V2Ref::Partial(..) => "pair:partial|Err",
        V2Ref::Prefix => "pair:prefix|Err",
        V2Ref::Version(_) => "pair:version|Err",
        V2Ref::Command(_) => "pair:command|Err",
        V2Ref::Family(_) => "pair:family|Err",
        V2Ref::Transport(_) => "pair:transport|Err",
        V2Ref::InvalidAddresses(..) => "pair:invalid-addresses|Err",
    }
}

/// Runs `f` on the big per-thread buffer with control bytes and length set.
pub fn with_big<R>(vc: u8, fp: u8, len: u16, f: impl FnOnce(&[u8]) -> R) -> R {
    BIG.with(|b| {
        let mut b = b.borrow_mut();
        b[12] = vc;
        b[13] = fp;
        b[14] = (len >> 8) as u8;
        b[15] = len as u8;
        f(&b[..])
    })
}

impl Monitor for C02 {
    fn id(&self) -> &'static str {
        "C02"
    }
    fn rule(&self) -> &'static str {
        "cases = byte strings from the v2 workload (all 65536 control-byte pairs x a 17-step length ladder x 8 relations between declared length and bytes present; thorough: all 2^32 (control pair, declared length) values with the full payload present and the 24 valid pairs x 65536 lengths with one byte missing; valid headers of every family with distinct address bytes and empty/well-formed/malformed TLV sections up to 65535 bytes; every signature-byte corruption; cuts; v1/v2 mixes; random bytes after the signature), each parsed with v2::Header::try_from and compared with the table oracle; non-trivial = the oracle gets past the signature and version checks; distinct = distinct (control, length, presence) triples or input hashes"
    }
    fn streams(&self, tier: Tier) -> Vec<StreamSpec> {
        let mut s = v2_streams(tier, 10_000);
        if tier != Tier::Miri {
            s.push(exhaustive("v2-huge", 18));
        }
        if tier == Tier::Thorough {
            s.push(exhaustive("v2-all", 1u64 << 32));
            s.push(exhaustive("v2-all-short", 24 * 65536));
        }
        s
    }
    fn run_case(&self, stream: &str, idx: u64, seed: u64, rec: &mut Recorder) {
        if stream == "v2-huge" {
            // a well-formed header at the front of a receive buffer of 2 GiB .. 8 GiB (lazily zeroed
            // virtual memory): "at least 16 + length bytes are present" whatever follows
            if !spec::engine::huge_ok() {
                return;
            }
            let mut rng = spec::rng::Rng::for_case(seed, 77, idx);
            let mut h = Vec::new();
            let (vc, fp) = valid_ctl(idx);
            spec::v2::valid_header_budget(&mut rng, &mut h, vc, fp, Some(40));
            let size = spec::engine::HUGE_SIZES[(idx / 3) as usize % spec::engine::HUGE_SIZES.len()];
            let want = v2_parse(&h);
            let got = spec::engine::with_huge(&h, size, |x| v2_parse(x));
            rec.case(mix(idx ^ 0x4069), true);
            rec.events(2);
            match got {
                None => rec.class("skipped:huge-allocation-refused", || size.to_string()),
                Some(g) if g == want && want.is_ok() => rec.class("oracle:header-in-a-multi-GiB-buffer", || format!("{} bytes", size)),
                Some(g) => rec.violation("wrongly-rejected", enc_case("v2", &h), format!("huge-buffer|{}", skeleton_v2(&h)), format!("header {:?} alone gives {}, at the front of a zero-filled buffer of {} bytes it gives {}", show(&h[..h.len().min(24)], 24), want.class(), size, g.class())),
            }
            return;
        }
        match stream {
            "v2-all" => {
                let ctl = (idx >> 16) as u16;
                let len = idx as u16;
                with_big((ctl >> 8) as u8, ctl as u8, len, |input| judge(input, rec, mix(idx)));
            }
            "v2-all-short" => {
                let (vc, fp) = valid_ctl(idx >> 16);
                let len = idx as u16;
                with_big(vc, fp, len, |input| {
                    let present = (16 + len as usize).saturating_sub(1).max(16);
                    judge(&input[..present], rec, mix(idx ^ 0x5107));
                });
            }
            _ => SCRATCH.with(|b| {
                let mut b = b.borrow_mut();
                v2_case(stream, idx, seed, &mut b);
                let h = if stream == "v2-ctl" { mix(idx ^ 0xC71) } else { hash_bytes(&b) };
                if stream == "v2-ctl" || stream == "v2-dense" {
                    spec::engine::placed(&b, idx / 3, |x| judge(x, rec, h));
                } else {
                    spec::sib::run_v2(&b, idx, 4, |x| {
                        judge(x, rec, if x == &b[..] { h } else { hash_bytes(x) });
                    });
                }
            }),
        }
    }
    fn cold_start(&self, rec: &mut Recorder) {
        // the process's first v2 parses, from twelve threads at the same instant: every result is
        // judged against the table oracle like any other
        let rot = spec::engine::cold_rot();
        let nthreads = if spec::engine::small() { 2 } else if rot % 3 == 2 { 1 } else { 12 };
        let mut inputs: Vec<Vec<u8>> = (0..24u64)
            .map(|i| {
                let (vc, fp) = valid_ctl(i);
                let mut rng = spec::rng::Rng::new(i ^ 0xC01D);
                let mut b = Vec::new();
                spec::v2::valid_header_budget(&mut rng, &mut b, vc, fp, Some(30));
                if i % 5 == 4 {
                    b[13] = 0x40 | (i as u8 & 0x0F); // invalid family nibble: must be refused
                }
                b
            })
            .collect();
        // control bytes and length all zero / all ones / one nibble wrong, before and after valid ones
        for ctl in [[0u8, 0, 0, 0], [0xFF; 4], [0x21, 0x00, 0, 0], [0x20, 0x00, 0, 0], [0x11, 0x11, 0, 12], [0x22, 0x11, 0, 12], [0x21, 0x41, 0, 12], [0x21, 0x13, 0, 12]] {
            let mut b = SIG.to_vec();
            b.extend_from_slice(&ctl);
            b.extend_from_slice(&[7u8; 12]);
            inputs.push(b);
        }
        let n = inputs.len();
        let outs = spec::engine::race_start(nthreads, |t| (0..n).map(|k| v2_parse(&inputs[(rot + k + 2 * t) % n])).collect::<Vec<O2>>());
        for (t, list) in outs.iter().enumerate() {
            for (k, o) in list.iter().enumerate() {
                let x = &inputs[(rot + k + 2 * t) % n];
                let later = v2_parse(x);
                rec.events(2);
                if *o != later {
                    rec.violation("cold-start-race", enc_case("v2", x), "cold-start".into(), format!("cold start: thread {} of {}, as one of the first v2 parses of the process, got {} for {:?}; the same call later gives {}", t, nthreads, o.class(), show(&x[..x.len().min(24)], 24), later.class()));
                }
            }
        }
        for x in &inputs {
            judge(x, rec, hash_bytes(x));
        }
        rec.class("cold-start|threads released together", || "32 headers each".to_string());
    }
    fn floor(&self, tier: Tier) -> Vec<&'static str> {
        if tier == Tier::Miri {
            return vec!["oracle:ok-ipv4"];
        }
        vec![
            "oracle:ok-unspec",
            "oracle:ok-ipv4",
            "oracle:ok-ipv6",
            "oracle:ok-unix",
            "oracle:incomplete",
            "oracle:partial",
            "oracle:prefix",
            "oracle:version",
            "oracle:command",
            "oracle:family",
            "oracle:transport",
            "oracle:invalid-addresses",
        ]
    }
    fn replay(&self, case: &str, rec: &mut Recorder) {
        if let Some((_, bytes)) = dec_case(case) {
            judge(&bytes, rec, 0);
        }
    }
    fn assumptions(&self) -> Vec<&'static str> {
        vec!["the table oracle spec::v2::v2_ref is a faithful reading of the C02 statement", "in the exhaustive 2^32 sweep the payload bytes are one fixed random buffer per thread"]
    }
}
