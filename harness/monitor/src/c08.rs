//! C08 — v1 formatting produces canonical lines that parse back to the same addresses.
//! Round trip through the real formatter and every text entry point + independent decoding of
//! the formatted line by the grammar oracle.

use crate::adapt::*;
use ppp::v1;
use spec::engine::{exhaustive, stream, stream_id, Monitor, StreamSpec, Tier};
use spec::json::show;
use spec::record::{skeleton_text, Recorder};
use spec::rng::{hash_bytes, Rng};
use spec::v1::{v1_ref, V1Ref};
use spec::v1gen::*;
use std::net::{Ipv4Addr, Ipv6Addr};

pub struct C08;

fn to_ppp(a: &A1) -> v1::Addresses {
    match a {
        A1::Unknown => v1::Addresses::Unknown,
        A1::Tcp4 { src, dst, sp, dp } => v1::Addresses::Tcp4(v1::IPv4 {
            source_address: Ipv4Addr::from(*src),
            source_port: *sp,
            destination_address: Ipv4Addr::from(*dst),
            destination_port: *dp,
        }),
        A1::Tcp6 { src, dst, sp, dp } => v1::Addresses::Tcp6(v1::IPv6 {
            source_address: Ipv6Addr::from(*src),
            source_port: *sp,
            destination_address: Ipv6Addr::from(*dst),
            destination_port: *dp,
        }),
    }
}

fn a1_text(a: &A1) -> String {
    match a {
        A1::Unknown => "unknown".into(),
        A1::Tcp4 { src, dst, sp, dp } => format!("4:{}:{}:{}:{}", spec::json::hex(src), spec::json::hex(dst), sp, dp),
        A1::Tcp6 { src, dst, sp, dp } => format!("6:{}:{}:{}:{}", spec::json::hex(src), spec::json::hex(dst), sp, dp),
    }
}

fn a1_parse(s: &str) -> Option<A1> {
    if s == "unknown" {
        return Some(A1::Unknown);
    }
    let p: Vec<&str> = s.split(':').collect();
    let a = spec::json::unhex(p.get(1)?)?;
    let b = spec::json::unhex(p.get(2)?)?;
    let sp = p.get(3)?.parse().ok()?;
    let dp = p.get(4)?.parse().ok()?;
    match p[0] {
        "4" => Some(A1::Tcp4 { src: a.try_into().ok()?, dst: b.try_into().ok()?, sp, dp }),
        "6" => Some(A1::Tcp6 { src: a.try_into().ok()?, dst: b.try_into().ok()?, sp, dp }),
        _ => None,
    }
}

fn shape_groups(mask: u8, mode: u64, salt: u16) -> [u16; 8] {
    let mut g = [0u16; 8];
    for i in 0..8 {
        if mask & (1 << i) == 0 {
            g[i] = match mode {
                0 => 1 + i as u16,
                1 => 0xffff - i as u16,
                _ => (salt.wrapping_mul(31).wrapping_add(i as u16 * 0x1357)) | 1,
            };
        }
    }
    g
}

/// A formatter sink that accepts `room` bytes and then fails.
struct Limited {
    room: usize,
}
impl std::fmt::Write for Limited {
    fn write_str(&mut self, s: &str) -> std::fmt::Result {
        if s.len() > self.room {
            self.room = 0;
            return Err(std::fmt::Error);
        }
        self.room -= s.len();
        Ok(())
    }
}

/// The obligations on one formatted text `s` of value `v` (`spec` = "" for plain `{}`).
fn judge_line(v: &A1, s: &str, spec: &str, case: &str, rec: &mut Recorder) {
    let tag = |rule: &str| if spec.is_empty() { rule.to_string() } else { format!("{}:{}", rule, spec) };
    let viol = |rec: &mut Recorder, rule: &str, line: &str, detail: String| {
        rec.violation(&tag(rule), case.to_string(), skeleton_text(line.as_bytes()), format!("{}: value {:?} formats{} to {:?}; {}", rule, v, if spec.is_empty() { String::new() } else { format!(" with {}", spec) }, line, detail));
    };
    if s.len() > 107 {
        viol(rec, "line-too-long", s, format!("{} bytes", s.len()));
    }
    // independent decoding
    match v1_ref(s.as_bytes()) {
        V1Ref::Accept(acc) if acc.header_len == s.len() && a1_of_accept(&acc) == *v => {}
        other => viol(rec, "not-canonical", s, format!("the grammar oracle reads it as {:?}", other)),
    }
    // every text entry point gives back the value (and the header text)
    let outs = [("try_from(&str)", v1_str(s)), ("try_from(&[u8])", v1_bytes(s.as_bytes())), ("parse::<Header>", v1_fromstr_header(s)), ("parse::<Addresses>", v1_fromstr_addr(s))];
    for (name, o) in outs.iter() {
        rec.event();
        match o {
            O1::Ok { header, addr, .. } => {
                if addr != v {
                    viol(rec, &format!("round-trip:{}", name), s, format!("{} gives back {:?}", name, addr));
                } else if *name != "parse::<Addresses>" && header != s {
                    viol(rec, &format!("round-trip:{}", name), s, format!("{} reports header text {:?}", name, header));
                }
            }
            other => viol(rec, &format!("round-trip:{}", name), s, format!("{} gives {:?}", name, other)),
        }
    }
}

fn judge_value(v: &A1, rec: &mut Recorder) {
    let case = format!("val:{}", a1_text(v));
    rec.case(hash_bytes(case.as_bytes()), *v != A1::Unknown);
    // history: every 4th value is first formatted into a sink that fails part-way (a bounded
    // buffer); formatting is a pure function of the value, so this must leave no trace
    if hash_bytes(case.as_bytes()) % 4 == 0 {
        let room = (hash_bytes(case.as_bytes()) >> 8) as usize % 40;
        let r = guard(|| {
            use std::fmt::Write;
            let mut sink = Limited { room };
            let a = write!(sink, "{}", to_ppp(v)).is_err();
            let mut sink2 = Limited { room: room / 2 };
            let b = write!(sink2, "{}", to_ppp(&A1::Tcp4 { src: [9, 9, 9, 9], dst: [8, 8, 8, 8], sp: 9, dp: 8 })).is_err();
            (a, b)
        });
        rec.events(2);
        // ... or into a sink that panics part-way, the panic being caught (a worker pool that
        // survives a panicking task)
        if room % 3 == 0 {
            struct Bomb(usize);
            impl std::fmt::Write for Bomb {
                fn write_str(&mut self, s: &str) -> std::fmt::Result {
                    if s.len() > self.0 {
                        panic!("sink full");
                    }
                    self.0 -= s.len();
                    Ok(())
                }
            }
            let _ = guard(|| {
                use std::fmt::Write;
                let mut b = Bomb(room);
                let _ = write!(b, "{}", to_ppp(v));
                let _ = write!(b, "{}", to_ppp(&A1::Tcp4 { src: [7, 7, 7, 7], dst: [6, 6, 6, 6], sp: 7, dp: 6 }));
            });
            rec.events(2);
            rec.class("history:formatted-into-a-panicking-sink-first", || case.clone());
        }
        match r {
            Ok(_) => rec.class("history:formatted-into-a-failing-sink-first", || case.clone()),
            Err(m) => rec.violation("panic", case.clone(), "failing-sink".into(), format!("Display into a failing sink panicked: {}", m)),
        }
    }
    let r = guard(|| to_ppp(v).to_string());
    rec.event();
    let viol = |rec: &mut Recorder, rule: &str, line: &str, detail: String| {
        rec.violation(rule, case.clone(), skeleton_text(line.as_bytes()), format!("{}: value {:?} formats to {:?}; {}", rule, v, line, detail));
    };
    let s = match r {
        Ok(s) => s,
        Err(m) => {
            viol(rec, "panic", "", m);
            return;
        }
    };
    rec.class(
        match v {
            A1::Unknown => "oracle:value-unknown",
            A1::Tcp4 { .. } => "oracle:value-tcp4",
            A1::Tcp6 { src, dst, .. } => {
                if src[..10] == [0; 10] || dst[..10] == [0; 10] {
                    "oracle:value-tcp6-v4-mapped-or-compatible-shape"
                } else {
                    "oracle:value-tcp6"
                }
            }
        },
        || s.clone(),
    );
    judge_line(v, &s, "", &case, rec);
    // the same value through format specs that carry flags (width, fill, sign, zero padding,
    // precision, alternate): whatever text comes out is "the text it formats to" and has to meet
    // the same obligations; also through `&v`, `Box`, and a second time
    if hash_bytes(case.as_bytes()) % 8 == 1 {
        let a = to_ppp(v);
        let outs = guard(|| {
            vec![
                ("{:>4}", format!("{:>4}", a)),
                ("{:<120}", format!("{:<120}", a)),
                ("{:+}", format!("{:+}", a)),
                ("{:08}", format!("{:08}", a)),
                ("{:.3}", format!("{:.3}", a)),
                ("{:^9.2}", format!("{:^9.2}", a)),
                ("{:#}", format!("{:#}", a)),
                ("{:*<60}", format!("{:*<60}", a)),
                ("{:1$}", format!("{:1$}", a, 70)),
                ("&value", format!("{}", &a)),
                ("Box<value>", format!("{}", Box::new(a))),
                ("again", a.to_string()),
            ]
        });
        match outs {
            Ok(list) => {
                for (spec, text) in list {
                    rec.event();
                    rec.class("display:with-format-flags", || format!("{} -> {:?}", spec, text));
                    judge_line(v, &text, spec, &case, rec);
                }
            }
            Err(m) => viol(rec, "panic", &s, format!("formatting with flags panicked: {}", m)),
        }
    }
    // a distinct value must not share the line (swap source and destination)
    let swapped = match v {
        A1::Tcp4 { src, dst, sp, dp } => Some(A1::Tcp4 { src: *dst, dst: *src, sp: *dp, dp: *sp }),
        A1::Tcp6 { src, dst, sp, dp } => Some(A1::Tcp6 { src: *dst, dst: *src, sp: *dp, dp: *sp }),
        A1::Unknown => None,
    };
    if let Some(w) = swapped {
        if w != *v {
            if let Ok(s2) = guard(|| to_ppp(&w).to_string()) {
                rec.event();
                if s2 == s {
                    viol(rec, "not-injective", &s, format!("the distinct value {:?} formats to the same line", w));
                }
            }
        }
    }
}

/// Values related to `v`, formatted right after it on the same thread: formatting is a function
/// of the value alone, so a neighbour that is numerically equal in the other family, or differs
/// only in its ports or in the order of its endpoints, must not inherit anything.
fn value_siblings(v: &A1) -> Vec<A1> {
    let widen = |a: &[u8; 4], mapped: bool| -> [u8; 16] {
        let mut x = [0u8; 16];
        if mapped {
            x[10] = 0xff;
            x[11] = 0xff;
        }
        x[12..].copy_from_slice(a);
        x
    };
    let narrow = |a: &[u8; 16]| -> [u8; 4] { [a[12], a[13], a[14], a[15]] };
    let mut out = Vec::new();
    match v {
        A1::Unknown => {}
        A1::Tcp4 { src, dst, sp, dp } => {
            out.push(A1::Tcp6 { src: widen(src, false), dst: widen(dst, false), sp: *sp, dp: *dp });
            out.push(A1::Tcp6 { src: widen(src, true), dst: widen(dst, true), sp: *sp, dp: *dp });
            out.push(A1::Tcp4 { src: *src, dst: *dst, sp: *dp, dp: *sp });
            out.push(A1::Tcp4 { src: *src, dst: *dst, sp: sp.wrapping_add(1), dp: *dp });
        }
        A1::Tcp6 { src, dst, sp, dp } => {
            out.push(A1::Tcp4 { src: narrow(src), dst: narrow(dst), sp: *sp, dp: *dp });
            out.push(A1::Tcp6 { src: *src, dst: *dst, sp: *dp, dp: *sp });
            out.push(A1::Tcp6 { src: *src, dst: *dst, sp: *sp, dp: dp.wrapping_add(1) });
            let mut s2 = *src;
            s2[..12].copy_from_slice(&[0; 12]);
            let mut d2 = *dst;
            d2[..12].copy_from_slice(&[0; 12]);
            out.push(A1::Tcp6 { src: s2, dst: d2, sp: *sp, dp: *dp });
            out.push(A1::Tcp4 { src: narrow(src), dst: narrow(dst), sp: *sp, dp: *dp });
        }
    }
    out.push(A1::Unknown);
    out.push(v.clone());
    out
}

/// Light judge for the 2^32-sized thorough sweeps: format, decode independently, parse back
/// through the text entry point; everything else is left to the other streams.
fn judge_value_light(v: &A1, rec: &mut Recorder) {
    let r = guard(|| {
        let s = to_ppp(v).to_string();
        let back = match v1::Header::try_from(s.as_str()) {
            Ok(h) => Some(a1(&h.addresses)),
            Err(_) => None,
        };
        (s, back)
    });
    rec.events(2);
    match r {
        Ok((s, back)) => {
            let fine = s.len() <= 107 && back.as_ref() == Some(v) && matches!(v1_ref(s.as_bytes()), V1Ref::Accept(ref acc) if acc.header_len == s.len() && a1_of_accept(acc) == *v);
            if !fine {
                // the full judge names the rule
                judge_value(v, rec);
            }
        }
        Err(_) => judge_value(v, rec),
    }
}

fn judge_value_with_history(v: &A1, idx: u64, rec: &mut Recorder) {
    judge_value(v, rec);
    if !spec::engine::small() && spec::engine::with_history(idx, 4) {
        for w in value_siblings(v) {
            judge_value(&w, rec);
        }
    }
}

/// A parsed header formats back to exactly the text it was parsed from.
fn judge_parsed(x: &[u8], rec: &mut Recorder) {
    let r = guard(|| match v1::Header::try_from(x) {
        Ok(h) => Some((h.header.to_string(), h.to_string(), h.to_owned().to_string(), format!("{}", h.clone()))),
        Err(_) => None,
    });
    rec.event();
    match r {
        Ok(Some((text, a, b, c))) => {
            rec.case(hash_bytes(x), true);
            rec.events(3);
            rec.class("parsed-header-formatted-back", || show(x, 100));
            let line_end = x.iter().position(|&b| b == b'\r').map(|i| i + 2).unwrap_or(x.len()).min(x.len());
            let line = &x[..line_end];
            if a.as_bytes() != line || b.as_bytes() != line || c.as_bytes() != line || text.as_bytes() != line {
                rec.violation(
                    "parsed-header-format",
                    enc_case("v1", x),
                    skeleton_text(x),
                    format!("header parsed from {:?} formats to {:?} (owned copy: {:?}, clone: {:?})", show(line, 120), a, b, c),
                );
            }
        }
        Ok(None) => rec.case(hash_bytes(x), false),
        Err(m) => {
            rec.case(hash_bytes(x), true);
            rec.violation("panic", enc_case("v1", x), skeleton_text(x), m)
        }
    }
}

impl Monitor for C08 {
    fn id(&self) -> &'static str {
        "C08"
    }
    fn rule(&self) -> &'static str {
        "cases = v1 address values: Unknown; IPv4 pairs from boundary x boundary octets and random; IPv6 pairs covering all 256 zero/non-zero group shapes x 3 value modes for the source x 16 shapes for the destination (exhaustive), IPv4-mapped / compatible / all-zero / all-ones, random; exhaustive single-field sweeps (all 65536 values of each port position of both families, all 256 values of each IPv4 octet position, all 65536 values of each IPv6 group position, the other fields random); ports from 12 boundary values and random, always source != destination; each value is formatted with Display, the line decoded by the independent grammar oracle, parsed back through try_from(&str), try_from(&[u8]), parse::<Header>, parse::<Addresses>, and its source/destination-swapped twin must format differently; second half: every accepted header of the v1 workload must format back (Display, to_owned, clone) to the text it was parsed from; non-trivial = not Unknown / accepted header; distinct = distinct values / inputs"
    }
    fn streams(&self, tier: Tier) -> Vec<StreamSpec> {
        vec![
            exhaustive("c08-unknown", 1),
            stream("c08-v4", tier.n(50, 1_000_000, 25_000_000)),
            exhaustive("c08-v6-shapes", if tier == Tier::Miri { 64 } else { 256 * 3 * 16 }),
            stream("c08-v6", tier.n(50, 1_000_000, 25_000_000)),
            if tier == Tier::Miri { stream("c08-sweep-s", 100) } else { exhaustive("c08-sweep", SWEEP_PORTS + SWEEP_OCTETS + SWEEP_GROUPS) },
            stream("v1-valid", tier.n(50, 200_000, 20_000_000)),
            // thorough only: ALL 2^16 x 2^16 port pairs (the other fields change once per block of 2^16)
            if tier == Tier::Thorough { exhaustive("c08-all-port-pairs", 1u64 << 32) } else { stream("c08-port-pairs-s", tier.n(10, 200_000, 0)) },
            // IPv4 addresses: a 2^28 sample of all source / destination values in thorough
            stream("c08-v4-sources-s", tier.n(10, 200_000, 1 << 28)),
            stream("c08-v4-destinations-s", tier.n(10, 200_000, 1 << 28)),
            stream("v1-mut", tier.n(50, 100_000, 10_000_000)),
            stream("v1-eol", tier.n(20, 50_000, 5_000_000)),
            exhaustive("calling-context", 2),
            exhaustive("v1-collide", if tier == Tier::Miri { 0 } else { 2 * spec::collide::v1_pairs().len() as u64 }),
        ]
    }
    fn run_case(&self, stream: &str, idx: u64, seed: u64, rec: &mut Recorder) {
        if stream == "calling-context" {
            // the same calls from an ordinary place, a second time, and from a thread-local
            // destructor at thread exit (pure functions do not depend on where they are called)
            let _ = (idx, seed);
            if spec::engine::layer().starts_with("miri") {
                return;
            }
            crate::adapt::judge_context(&["C08"], rec);
            return;
        }
        let mut rng = Rng::for_case(seed, stream_id(stream), idx);
        let rng = &mut rng;
        match stream {
            "c08-unknown" => judge_value(&A1::Unknown, rec),
            "c08-v4" => {
                let (a, b) = rand_v4_pair(rng);
                let (sp, dp) = rand_port_pair(rng);
                judge_value_with_history(&A1::Tcp4 { src: a, dst: b, sp, dp }, idx, rec);
            }
            "c08-v6-shapes" => {
                let mask = (idx % 256) as u8;
                let mode = (idx / 256) % 3;
                let dshape = ((idx / 768) % 16) as u8;
                let src = shape_groups(mask, mode, rng.u16());
                // 16 destination shapes: runs at the start, middle, end, two runs, none, all
                let dmask = [0x00u8, 0xFF, 0x01, 0x80, 0x03, 0xC0, 0x18, 0x3C, 0x7E, 0x81, 0xC3, 0x66, 0x0F, 0xF0, 0x55, 0xFE][dshape as usize];
                let mut dst = shape_groups(dmask, (mode + 1) % 3, rng.u16());
                if dst == src {
                    dst[7] ^= 0x0100;
                }
                let (sp, dp) = rand_port_pair(rng);
                judge_value_with_history(&A1::Tcp6 { src: bytes_of(src), dst: bytes_of(dst), sp, dp }, idx, rec);
            }
            "c08-v6" => {
                let (a, b) = rand_v6_pair(rng);
                let (sp, dp) = rand_port_pair(rng);
                judge_value_with_history(&A1::Tcp6 { src: bytes_of(a), dst: bytes_of(b), sp, dp }, idx, rec);
            }
            "c08-all-port-pairs" | "c08-all-v4-sources" | "c08-all-v4-destinations" | "c08-port-pairs-s" | "c08-v4-sources-s" | "c08-v4-destinations-s" => {
                // thorough: idx enumerates the 2^32 values; quick: a random sample of them
                let x = if stream.starts_with("c08-all-") { idx as u32 } else { rng.next() as u32 };
                let hi = (x >> 16) as u16;
                let blk = x >> 16; // other fields change once per block of 65536 cases
                let other = |k: u32| -> [u8; 4] { (0x0A00_0000u32 | (blk.wrapping_mul(2654435761).wrapping_add(k) & 0x00FF_FFFF)).to_be_bytes() };
                let v = match stream {
                    "c08-all-port-pairs" | "c08-port-pairs-s" => {
                        if blk % 2 == 0 {
                            A1::Tcp4 { src: other(1), dst: other(2), sp: hi, dp: x as u16 }
                        } else {
                            let mut a = [0u8; 16];
                            let mut b = [0u8; 16];
                            a[..4].copy_from_slice(&[0x20, 0x01, 0x0d, 0xb8]);
                            b[..4].copy_from_slice(&[0xfd, 0x00, 0x00, 0x01]);
                            a[12..].copy_from_slice(&other(3));
                            b[12..].copy_from_slice(&other(4));
                            A1::Tcp6 { src: a, dst: b, sp: hi, dp: x as u16 }
                        }
                    }
                    "c08-all-v4-sources" | "c08-v4-sources-s" => A1::Tcp4 { src: x.to_be_bytes(), dst: other(5), sp: (blk as u16) | 1, dp: 443 },
                    _ => A1::Tcp4 { src: other(6), dst: x.to_be_bytes(), sp: 80, dp: (blk as u16) ^ 0x5555 },
                };
                rec.case(x as u64 | (stream.len() as u64) << 40, true);
                rec.class("oracle:value-in-a-2^32-sweep", || a1_text(&v));
                judge_value_light(&v, rec);
            }
            "c08-sweep" | "c08-sweep-s" => {
                // every port value in each position, every octet value in each position, every
                // group value in each position (exhaustive), the other fields random
                let fields = SWEEP_PORTS + SWEEP_OCTETS + SWEEP_GROUPS;
                let i = if stream == "c08-sweep" { idx } else { rng.below(fields) };
                let v = match sweep_values(i, rng) {
                    Val1::Tcp4 { src, dst, sp, dp } => A1::Tcp4 { src, dst, sp, dp },
                    Val1::Tcp6 { src, dst, sp, dp } => A1::Tcp6 { src, dst, sp, dp },
                };
                judge_value_with_history(&v, idx, rec);
            }
            _ => {
                let x = v1_case(stream, idx, seed);
                spec::sib::run_v1(&x, idx, 4, |x| judge_parsed(x, rec));
            }
        }
    }
    fn cold_start(&self, rec: &mut Recorder) {
        cold_start_equal(rec, "parse, then Display of the addresses and of the header", &cold_inputs(), &|x| match guard(|| v1::Header::try_from(x).map(|h| format!("{}|{}|{:>4}", h.addresses, h, h.addresses)).map_err(|_| ())) {
            Ok(r) => format!("{:?}", r),
            Err(m) => format!("PANIC {}", m),
        });
    }
    fn floor(&self, tier: Tier) -> Vec<&'static str> {
        if tier == Tier::Miri {
            return vec!["oracle:value-unknown", "oracle:value-tcp4", "oracle:value-tcp6"];
        }
        vec!["oracle:value-unknown", "oracle:value-tcp4", "oracle:value-tcp6", "oracle:value-tcp6-v4-mapped-or-compatible-shape"]
    }
    fn replay(&self, case: &str, rec: &mut Recorder) {
        if let Some(v) = case.strip_prefix("val:").and_then(a1_parse) {
            judge_value(&v, rec);
        } else if let Some((_, bytes)) = dec_case(case) {
            judge_parsed(&bytes, rec);
        }
    }
}
