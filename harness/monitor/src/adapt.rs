//! Observation at the public API boundary of `ppp`: every call is wrapped in `guard`
//! (catch_unwind + a panic hook that records message and location) and its outcome normalised
//! into plain data the oracles in `spec` can be compared with.

use ppp::{v1, v2, HeaderResult, PartialResult};
use spec::v2::V2Ref;
use std::cell::RefCell;
use std::panic::{catch_unwind, AssertUnwindSafe};

thread_local! {
    static PANIC: RefCell<Option<String>> = const { RefCell::new(None) };
}

pub fn install_panic_hook() {
    std::panic::set_hook(Box::new(|info| {
        let loc = info.location().map(|l| format!("{}:{}", l.file(), l.line())).unwrap_or_default();
        let msg = if let Some(s) = info.payload().downcast_ref::<&str>() {
            s.to_string()
        } else if let Some(s) = info.payload().downcast_ref::<String>() {
            s.clone()
        } else {
            "<non-string panic payload>".to_string()
        };
        PANIC.with(|p| *p.borrow_mut() = Some(format!("{} at {}", msg, loc)));
    }));
}

/// Runs `f`, turning a panic into Err(message at location).
pub fn guard<T>(f: impl FnOnce() -> T) -> Result<T, String> {
    match catch_unwind(AssertUnwindSafe(f)) {
        Ok(v) => Ok(v),
        Err(_) => Err(PANIC.with(|p| p.borrow_mut().take()).unwrap_or_else(|| "panic".into())),
    }
}

// ---------------------------------------------------------------------------------------------
// v1

#[derive(Clone, PartialEq, Eq, Debug)]
pub enum A1 {
    Unknown,
    Tcp4 { src: [u8; 4], dst: [u8; 4], sp: u16, dp: u16 },
    Tcp6 { src: [u8; 16], dst: [u8; 16], sp: u16, dp: u16 },
}

pub fn a1(a: &v1::Addresses) -> A1 {
    match a {
        v1::Addresses::Unknown => A1::Unknown,
        v1::Addresses::Tcp4(x) => A1::Tcp4 {
            src: x.source_address.octets(),
            dst: x.destination_address.octets(),
            sp: x.source_port,
            dp: x.destination_port,
        },
        v1::Addresses::Tcp6(x) => A1::Tcp6 {
            src: x.source_address.octets(),
            dst: x.destination_address.octets(),
            sp: x.source_port,
            dp: x.destination_port,
        },
    }
}

/// What the oracle's Accept says the addresses are, in the same shape.
pub fn a1_of_accept(acc: &spec::v1::Accept) -> A1 {
    match acc.proto {
        spec::v1::Proto::Unknown => A1::Unknown,
        spec::v1::Proto::Tcp4 => {
            let mut s = [0u8; 4];
            let mut d = [0u8; 4];
            s.copy_from_slice(&acc.src[..4]);
            d.copy_from_slice(&acc.dst[..4]);
            A1::Tcp4 { src: s, dst: d, sp: acc.sport, dp: acc.dport }
        }
        spec::v1::Proto::Tcp6 => A1::Tcp6 { src: acc.src, dst: acc.dst, sp: acc.sport, dp: acc.dport },
    }
}

#[derive(Clone, Copy, PartialEq, Eq, Debug)]
pub enum K1 {
    InvalidPrefix,
    Partial,
    MissingPrefix,
    MissingNewLine,
    MissingProtocol,
    MissingSourceAddress,
    MissingDestinationAddress,
    MissingSourcePort,
    MissingDestinationPort,
    HeaderTooLong,
    InvalidProtocol,
    InvalidSuffix,
    InvalidSourceAddress,
    InvalidDestinationAddress,
    InvalidSourcePort,
    InvalidDestinationPort,
    InvalidUtf8,
    /// a variant this harness does not know (added by a change to the crate)
    Other,
}

#[allow(unreachable_patterns)]
pub fn k1(e: &v1::ParseError) -> K1 {
    use v1::ParseError as E;
    match e {
        _ if false => K1::Other,
        E::InvalidPrefix => K1::InvalidPrefix,
        E::Partial => K1::Partial,
        E::MissingPrefix => K1::MissingPrefix,
        E::MissingNewLine => K1::MissingNewLine,
        E::MissingProtocol => K1::MissingProtocol,
        E::MissingSourceAddress => K1::MissingSourceAddress,
        E::MissingDestinationAddress => K1::MissingDestinationAddress,
        E::MissingSourcePort => K1::MissingSourcePort,
        E::MissingDestinationPort => K1::MissingDestinationPort,
        E::HeaderTooLong => K1::HeaderTooLong,
        E::InvalidProtocol => K1::InvalidProtocol,
        E::InvalidSuffix => K1::InvalidSuffix,
        E::InvalidSourceAddress(_) => K1::InvalidSourceAddress,
        E::InvalidDestinationAddress(_) => K1::InvalidDestinationAddress,
        E::InvalidSourcePort(_) => K1::InvalidSourcePort,
        E::InvalidDestinationPort(_) => K1::InvalidDestinationPort,
        _ => K1::Other,
    }
}

#[allow(unreachable_patterns)]
pub fn k1b(e: &v1::BinaryParseError) -> K1 {
    match e {
        v1::BinaryParseError::Parse(p) => k1(p),
        v1::BinaryParseError::InvalidUtf8(_) => K1::InvalidUtf8,
        _ => K1::Other,
    }
}

/// Normalised outcome of one v1 parse call.
#[derive(Clone, PartialEq, Eq, Debug)]
pub enum O1 {
    Ok { header: String, addr: A1, inc: bool, comp: bool },
    Err { kind: K1, inc: bool, comp: bool },
    Panic(String),
}

impl O1 {
    pub fn is_ok(&self) -> bool {
        matches!(self, O1::Ok { .. })
    }
    pub fn class(&self) -> String {
        match self {
            O1::Ok { addr, .. } => match addr {
                A1::Unknown => "Ok(UNKNOWN)".into(),
                A1::Tcp4 { .. } => "Ok(TCP4)".into(),
                A1::Tcp6 { .. } => "Ok(TCP6)".into(),
            },
            O1::Err { kind, inc, .. } => format!("Err({:?}{})", kind, if *inc { ",incomplete" } else { "" }),
            O1::Panic(_) => "PANIC".into(),
        }
    }
    /// (is_incomplete, is_complete) as reported through PartialResult on the Result
    pub fn flags(&self) -> Option<(bool, bool)> {
        match self {
            O1::Ok { inc, comp, .. } | O1::Err { inc, comp, .. } => Some((*inc, *comp)),
            O1::Panic(_) => None,
        }
    }
    pub fn incomplete(&self) -> bool {
        matches!(self.flags(), Some((true, _)))
    }
}

pub fn v1_bytes(input: &[u8]) -> O1 {
    match guard(|| {
        let r = v1::Header::try_from(input);
        let (inc, comp) = (r.is_incomplete(), r.is_complete());
        match r {
            Ok(h) => O1::Ok { header: h.header.to_string(), addr: a1(&h.addresses), inc, comp },
            Err(e) => O1::Err { kind: k1b(&e), inc, comp },
        }
    }) {
        Ok(o) => o,
        Err(m) => O1::Panic(m),
    }
}

pub fn v1_str(input: &str) -> O1 {
    match guard(|| {
        let r = v1::Header::try_from(input);
        let (inc, comp) = (r.is_incomplete(), r.is_complete());
        match r {
            Ok(h) => O1::Ok { header: h.header.to_string(), addr: a1(&h.addresses), inc, comp },
            Err(e) => O1::Err { kind: k1(&e), inc, comp },
        }
    }) {
        Ok(o) => o,
        Err(m) => O1::Panic(m),
    }
}

pub fn v1_fromstr_header(input: &str) -> O1 {
    match guard(|| {
        let r = input.parse::<v1::Header<'static>>();
        let (inc, comp) = (r.is_incomplete(), r.is_complete());
        match r {
            Ok(h) => O1::Ok { header: h.header.to_string(), addr: a1(&h.addresses), inc, comp },
            Err(e) => O1::Err { kind: k1(&e), inc, comp },
        }
    }) {
        Ok(o) => o,
        Err(m) => O1::Panic(m),
    }
}

/// `str::parse::<Addresses>`: the header text is not available, reported as empty.
pub fn v1_fromstr_addr(input: &str) -> O1 {
    match guard(|| {
        let r = input.parse::<v1::Addresses>();
        let (inc, comp) = (r.is_incomplete(), r.is_complete());
        match r {
            Ok(a) => O1::Ok { header: String::new(), addr: a1(&a), inc, comp },
            Err(e) => O1::Err { kind: k1(&e), inc, comp },
        }
    }) {
        Ok(o) => o,
        Err(m) => O1::Panic(m),
    }
}

// ---------------------------------------------------------------------------------------------
// v2

/// Maps a v2 parse error to the oracle's vocabulary (None for the TLV-only variants and for
/// variants this harness does not know).
#[allow(unreachable_patterns)]
pub fn v2_err_ref(e: &v2::ParseError) -> Option<V2Ref> {
    use v2::ParseError as E;
    Some(match e {
        E::Incomplete(n) => V2Ref::Incomplete(*n),
        E::Prefix => V2Ref::Prefix,
        E::Version(v) => V2Ref::Version(*v),
        E::Command(c) => V2Ref::Command(*c),
        E::AddressFamily(a) => V2Ref::Family(*a),
        E::Protocol(p) => V2Ref::Transport(*p),
        E::Partial(a, b) => V2Ref::Partial(*a, *b),
        E::InvalidAddresses(a, b) => V2Ref::InvalidAddresses(*a, *b),
        E::InvalidTLV(..) | E::Leftovers(_) => return None,
        _ => return None,
    })
}

pub fn cmd_code(c: v2::Command) -> u8 {
    match c {
        v2::Command::Local => 0,
        v2::Command::Proxy => 1,
    }
}
pub fn tr_code(p: v2::Protocol) -> u8 {
    match p {
        v2::Protocol::Unspecified => 0,
        v2::Protocol::Stream => 1,
        v2::Protocol::Datagram => 2,
    }
}
pub fn fam_code(f: v2::AddressFamily) -> u8 {
    match f {
        v2::AddressFamily::Unspecified => 0,
        v2::AddressFamily::IPv4 => 1,
        v2::AddressFamily::IPv6 => 2,
        v2::AddressFamily::Unix => 3,
    }
}
pub fn tr_of(code: u8) -> v2::Protocol {
    match code {
        0 => v2::Protocol::Unspecified,
        1 => v2::Protocol::Stream,
        _ => v2::Protocol::Datagram,
    }
}
pub fn cmd_of(code: u8) -> v2::Command {
    if code == 0 {
        v2::Command::Local
    } else {
        v2::Command::Proxy
    }
}

/// Family nibble and wire bytes of a decoded v2 address value, computed field by field
/// (source address, destination address, source port, destination port).
pub fn a2_wire(a: &v2::Addresses) -> (u8, Vec<u8>) {
    let mut v = Vec::new();
    match a {
        v2::Addresses::Unspecified => (0, v),
        v2::Addresses::IPv4(x) => {
            v.extend_from_slice(&x.source_address.octets());
            v.extend_from_slice(&x.destination_address.octets());
            v.push((x.source_port >> 8) as u8);
            v.push(x.source_port as u8);
            v.push((x.destination_port >> 8) as u8);
            v.push(x.destination_port as u8);
            (1, v)
        }
        v2::Addresses::IPv6(x) => {
            v.extend_from_slice(&x.source_address.octets());
            v.extend_from_slice(&x.destination_address.octets());
            v.push((x.source_port >> 8) as u8);
            v.push(x.source_port as u8);
            v.push((x.destination_port >> 8) as u8);
            v.push(x.destination_port as u8);
            (2, v)
        }
        v2::Addresses::Unix(x) => {
            v.extend_from_slice(&x.source);
            v.extend_from_slice(&x.destination);
            (3, v)
        }
    }
}

/// Normalised outcome of a v2 parse (owned copy; not for the hot exhaustive loops).
#[derive(Clone, PartialEq, Eq, Debug)]
pub enum O2 {
    Ok { header: Vec<u8>, cmd: u8, tr: u8, fam: u8, addr: Vec<u8>, inc: bool, comp: bool },
    Err { e: String, kind: Option<V2Ref>, inc: bool, comp: bool },
    Panic(String),
}

impl O2 {
    pub fn is_ok(&self) -> bool {
        matches!(self, O2::Ok { .. })
    }
    pub fn class(&self) -> String {
        match self {
            O2::Ok { fam, .. } => format!("Ok(fam{})", fam),
            O2::Err { kind, inc, .. } => format!("Err({}{})", kind.map(|k| k.class()).unwrap_or("tlv"), if *inc { ",incomplete" } else { "" }),
            O2::Panic(_) => "PANIC".into(),
        }
    }
    pub fn flags(&self) -> Option<(bool, bool)> {
        match self {
            O2::Ok { inc, comp, .. } | O2::Err { inc, comp, .. } => Some((*inc, *comp)),
            O2::Panic(_) => None,
        }
    }
    pub fn incomplete(&self) -> bool {
        matches!(self.flags(), Some((true, _)))
    }
}

pub fn o2_of(r: &Result<v2::Header<'_>, v2::ParseError>) -> O2 {
    let (inc, comp) = (r.is_incomplete(), r.is_complete());
    match r {
        Ok(h) => {
            let (fam, addr) = a2_wire(&h.addresses);
            O2::Ok { header: h.header.to_vec(), cmd: cmd_code(h.command), tr: tr_code(h.protocol), fam, addr, inc, comp }
        }
        Err(e) => O2::Err { e: format!("{:?}", e), kind: v2_err_ref(e), inc, comp },
    }
}

pub fn v2_parse(input: &[u8]) -> O2 {
    match guard(|| o2_of(&v2::Header::try_from(input))) {
        Ok(o) => o,
        Err(m) => O2::Panic(m),
    }
}

// ---------------------------------------------------------------------------------------------
// auto-detect

#[derive(Clone, PartialEq, Eq, Debug)]
pub enum OA {
    V1(O1),
    V2(O2),
    Panic(String),
}

impl OA {
    pub fn is_ok(&self) -> bool {
        match self {
            OA::V1(o) => o.is_ok(),
            OA::V2(o) => o.is_ok(),
            OA::Panic(_) => false,
        }
    }
    pub fn flags(&self) -> Option<(bool, bool)> {
        match self {
            OA::V1(o) => o.flags(),
            OA::V2(o) => o.flags(),
            OA::Panic(_) => None,
        }
    }
    pub fn incomplete(&self) -> bool {
        matches!(self.flags(), Some((true, _)))
    }
    pub fn class(&self) -> String {
        match self {
            OA::V1(o) => format!("V1:{}", o.class()),
            OA::V2(o) => format!("V2:{}", o.class()),
            OA::Panic(_) => "PANIC".into(),
        }
    }
}

/// `HeaderResult::parse`, with the completeness flags taken from the HeaderResult itself.
pub fn auto_parse(input: &[u8]) -> OA {
    match guard(|| {
        let r = HeaderResult::parse(input);
        let (inc, comp) = (r.is_incomplete(), r.is_complete());
        match r {
            HeaderResult::V1(r1) => OA::V1(match r1 {
                Ok(h) => O1::Ok { header: h.header.to_string(), addr: a1(&h.addresses), inc, comp },
                Err(e) => O1::Err { kind: k1b(&e), inc, comp },
            }),
            HeaderResult::V2(r2) => {
                let mut o = o2_of(&r2);
                match &mut o {
                    O2::Ok { inc: i, comp: c, .. } | O2::Err { inc: i, comp: c, .. } => {
                        *i = inc;
                        *c = comp;
                    }
                    _ => {}
                }
                OA::V2(o)
            }
        }
    }) {
        Ok(o) => o,
        Err(m) => OA::Panic(m),
    }
}

pub fn enc_case(kind: &str, bytes: &[u8]) -> String {
    format!("{}:{}", kind, spec::json::hex(bytes))
}

pub fn dec_case(case: &str) -> Option<(&str, Vec<u8>)> {
    let (k, h) = case.split_once(':')?;
    Some((k, spec::json::unhex(h)?))
}
