//! Observation at the public API boundary of `ppp`: every call is wrapped in `guard`
//! (catch_unwind + a panic hook that records message and location) and its outcome normalised
//! into plain data the oracles in `spec` can be compared with.

use ppp::{v1, v2, HeaderResult, PartialResult};
use spec::v2::V2Ref;
use std::cell::RefCell;
use std::panic::{catch_unwind, AssertUnwindSafe};

thread_local! {
    static PANIC: RefCell<Option<String>> = const { RefCell::new(None) };
}

pub fn install_panic_hook() {
    std::panic::set_hook(Box::new(|info| {
        let loc = info.location().map(|l| format!("{}:{}", l.file(), l.line())).unwrap_or_default();
        let msg = if let Some(s) = info.payload().downcast_ref::<&str>() {
            s.to_string()
        } else if let Some(s) = info.payload().downcast_ref::<String>() {
            s.clone()
        } else {
            "<non-string panic payload>".to_string()
        };
        // try_with: the hook may run while the thread's locals are being destroyed
        let _ = PANIC.try_with(|p| *p.borrow_mut() = Some(format!("{} at {}", msg, loc)));
    }));
}

/// Runs `f`, turning a panic into Err(message at location).
pub fn guard<T>(f: impl FnOnce() -> T) -> Result<T, String> {
    match catch_unwind(AssertUnwindSafe(f)) {
        Ok(v) => Ok(v),
        Err(_) => Err(PANIC.try_with(|p| p.borrow_mut().take()).ok().flatten().unwrap_or_else(|| "panic".into())),
    }
}

// ---------------------------------------------------------------------------------------------
// v1

#[derive(Clone, PartialEq, Eq, Debug)]
pub enum A1 {
    Unknown,
    Tcp4 { src: [u8; 4], dst: [u8; 4], sp: u16, dp: u16 },
    Tcp6 { src: [u8; 16], dst: [u8; 16], sp: u16, dp: u16 },
}

pub fn a1(a: &v1::Addresses) -> A1 {
    match a {
        v1::Addresses::Unknown => A1::Unknown,
        v1::Addresses::Tcp4(x) => A1::Tcp4 {
            src: x.source_address.octets(),
            dst: x.destination_address.octets(),
            sp: x.source_port,
            dp: x.destination_port,
        },
        v1::Addresses::Tcp6(x) => A1::Tcp6 {
            src: x.source_address.octets(),
            dst: x.destination_address.octets(),
            sp: x.source_port,
            dp: x.destination_port,
        },
    }
}

/// What the oracle's Accept says the addresses are, in the same shape.
pub fn a1_of_accept(acc: &spec::v1::Accept) -> A1 {
    match acc.proto {
        spec::v1::Proto::Unknown => A1::Unknown,
        spec::v1::Proto::Tcp4 => {
            let mut s = [0u8; 4];
            let mut d = [0u8; 4];
            s.copy_from_slice(&acc.src[..4]);
            d.copy_from_slice(&acc.dst[..4]);
            A1::Tcp4 { src: s, dst: d, sp: acc.sport, dp: acc.dport }
        }
        spec::v1::Proto::Tcp6 => A1::Tcp6 { src: acc.src, dst: acc.dst, sp: acc.sport, dp: acc.dport },
    }
}

#[derive(Clone, Copy, PartialEq, Eq, Debug)]
pub enum K1 {
    InvalidPrefix,
    Partial,
    MissingPrefix,
    MissingNewLine,
    MissingProtocol,
    MissingSourceAddress,
    MissingDestinationAddress,
    MissingSourcePort,
    MissingDestinationPort,
    HeaderTooLong,
    InvalidProtocol,
    InvalidSuffix,
    InvalidSourceAddress,
    InvalidDestinationAddress,
    InvalidSourcePort,
    InvalidDestinationPort,
    InvalidUtf8,
    /// a variant this harness does not know (added by a change to the crate)
    Other,
}

#[allow(unreachable_patterns)]
pub fn k1(e: &v1::ParseError) -> K1 {
    use v1::ParseError as E;
    match e {
        _ if false => K1::Other,
        E::InvalidPrefix => K1::InvalidPrefix,
        E::Partial => K1::Partial,
        E::MissingPrefix => K1::MissingPrefix,
        E::MissingNewLine => K1::MissingNewLine,
        E::MissingProtocol => K1::MissingProtocol,
        E::MissingSourceAddress => K1::MissingSourceAddress,
        E::MissingDestinationAddress => K1::MissingDestinationAddress,
        E::MissingSourcePort => K1::MissingSourcePort,
        E::MissingDestinationPort => K1::MissingDestinationPort,
        E::HeaderTooLong => K1::HeaderTooLong,
        E::InvalidProtocol => K1::InvalidProtocol,
        E::InvalidSuffix => K1::InvalidSuffix,
        E::InvalidSourceAddress(_) => K1::InvalidSourceAddress,
        E::InvalidDestinationAddress(_) => K1::InvalidDestinationAddress,
        E::InvalidSourcePort(_) => K1::InvalidSourcePort,
        E::InvalidDestinationPort(_) => K1::InvalidDestinationPort,
        _ => K1::Other,
    }
}

#[allow(unreachable_patterns)]
pub fn k1b(e: &v1::BinaryParseError) -> K1 {
    match e {
        v1::BinaryParseError::Parse(p) => k1(p),
        v1::BinaryParseError::InvalidUtf8(_) => K1::InvalidUtf8,
        _ => K1::Other,
    }
}

/// Normalised outcome of one v1 parse call.
#[derive(Clone, PartialEq, Eq, Debug)]
pub enum O1 {
    Ok { header: String, addr: A1, inc: bool, comp: bool },
    Err { kind: K1, inc: bool, comp: bool },
    Panic(String),
}

impl O1 {
    pub fn is_ok(&self) -> bool {
        matches!(self, O1::Ok { .. })
    }
    pub fn class(&self) -> String {
        match self {
            O1::Ok { addr, .. } => match addr {
                A1::Unknown => "Ok(UNKNOWN)".into(),
                A1::Tcp4 { .. } => "Ok(TCP4)".into(),
                A1::Tcp6 { .. } => "Ok(TCP6)".into(),
            },
            O1::Err { kind, inc, .. } => format!("Err({:?}{})", kind, if *inc { ",incomplete" } else { "" }),
            O1::Panic(_) => "PANIC".into(),
        }
    }
    /// (is_incomplete, is_complete) as reported through PartialResult on the Result
    pub fn flags(&self) -> Option<(bool, bool)> {
        match self {
            O1::Ok { inc, comp, .. } | O1::Err { inc, comp, .. } => Some((*inc, *comp)),
            O1::Panic(_) => None,
        }
    }
    pub fn incomplete(&self) -> bool {
        matches!(self.flags(), Some((true, _)))
    }
}

pub fn v1_bytes(input: &[u8]) -> O1 {
    match guard(|| {
        let r = v1::Header::try_from(input);
        let (inc, comp) = (r.is_incomplete(), r.is_complete());
        match r {
            Ok(h) => O1::Ok { header: h.header.to_string(), addr: a1(&h.addresses), inc, comp },
            Err(e) => O1::Err { kind: k1b(&e), inc, comp },
        }
    }) {
        Ok(o) => o,
        Err(m) => O1::Panic(m),
    }
}

pub fn v1_str(input: &str) -> O1 {
    match guard(|| {
        let r = v1::Header::try_from(input);
        let (inc, comp) = (r.is_incomplete(), r.is_complete());
        match r {
            Ok(h) => O1::Ok { header: h.header.to_string(), addr: a1(&h.addresses), inc, comp },
            Err(e) => O1::Err { kind: k1(&e), inc, comp },
        }
    }) {
        Ok(o) => o,
        Err(m) => O1::Panic(m),
    }
}

pub fn v1_fromstr_header(input: &str) -> O1 {
    match guard(|| {
        let r = input.parse::<v1::Header<'static>>();
        let (inc, comp) = (r.is_incomplete(), r.is_complete());
        match r {
            Ok(h) => O1::Ok { header: h.header.to_string(), addr: a1(&h.addresses), inc, comp },
            Err(e) => O1::Err { kind: k1(&e), inc, comp },
        }
    }) {
        Ok(o) => o,
        Err(m) => O1::Panic(m),
    }
}

/// `str::parse::<Addresses>`: the header text is not available, reported as empty.
pub fn v1_fromstr_addr(input: &str) -> O1 {
    match guard(|| {
        let r = input.parse::<v1::Addresses>();
        let (inc, comp) = (r.is_incomplete(), r.is_complete());
        match r {
            Ok(a) => O1::Ok { header: String::new(), addr: a1(&a), inc, comp },
            Err(e) => O1::Err { kind: k1(&e), inc, comp },
        }
    }) {
        Ok(o) => o,
        Err(m) => O1::Panic(m),
    }
}

// ---------------------------------------------------------------------------------------------
// v2

/// Maps a v2 parse error to the oracle's vocabulary (None for the TLV-only variants and for
/// variants this harness does not know).
#[allow(unreachable_patterns)]
pub fn v2_err_ref(e: &v2::ParseError) -> Option<V2Ref> {
    use v2::ParseError as E;
    Some(match e {
        E::Incomplete(n) => V2Ref::Incomplete(*n),
        E::Prefix => V2Ref::Prefix,
        E::Version(v) => V2Ref::Version(*v),
        E::Command(c) => V2Ref::Command(*c),
        E::AddressFamily(a) => V2Ref::Family(*a),
        E::Protocol(p) => V2Ref::Transport(*p),
        E::Partial(a, b) => V2Ref::Partial(*a, *b),
        E::InvalidAddresses(a, b) => V2Ref::InvalidAddresses(*a, *b),
        E::InvalidTLV(..) | E::Leftovers(_) => return None,
        _ => return None,
    })
}

pub fn cmd_code(c: v2::Command) -> u8 {
    match c {
        v2::Command::Local => 0,
        v2::Command::Proxy => 1,
    }
}
pub fn tr_code(p: v2::Protocol) -> u8 {
    match p {
        v2::Protocol::Unspecified => 0,
        v2::Protocol::Stream => 1,
        v2::Protocol::Datagram => 2,
    }
}
pub fn fam_code(f: v2::AddressFamily) -> u8 {
    match f {
        v2::AddressFamily::Unspecified => 0,
        v2::AddressFamily::IPv4 => 1,
        v2::AddressFamily::IPv6 => 2,
        v2::AddressFamily::Unix => 3,
    }
}
pub fn tr_of(code: u8) -> v2::Protocol {
    match code {
        0 => v2::Protocol::Unspecified,
        1 => v2::Protocol::Stream,
        _ => v2::Protocol::Datagram,
    }
}
pub fn cmd_of(code: u8) -> v2::Command {
    if code == 0 {
        v2::Command::Local
    } else {
        v2::Command::Proxy
    }
}

/// Family nibble and wire bytes of a decoded v2 address value, computed field by field
/// (source address, destination address, source port, destination port).
pub fn a2_wire(a: &v2::Addresses) -> (u8, Vec<u8>) {
    let mut v = Vec::new();
    match a {
        v2::Addresses::Unspecified => (0, v),
        v2::Addresses::IPv4(x) => {
            v.extend_from_slice(&x.source_address.octets());
            v.extend_from_slice(&x.destination_address.octets());
            v.push((x.source_port >> 8) as u8);
            v.push(x.source_port as u8);
            v.push((x.destination_port >> 8) as u8);
            v.push(x.destination_port as u8);
            (1, v)
        }
        v2::Addresses::IPv6(x) => {
            v.extend_from_slice(&x.source_address.octets());
            v.extend_from_slice(&x.destination_address.octets());
            v.push((x.source_port >> 8) as u8);
            v.push(x.source_port as u8);
            v.push((x.destination_port >> 8) as u8);
            v.push(x.destination_port as u8);
            (2, v)
        }
        v2::Addresses::Unix(x) => {
            v.extend_from_slice(&x.source);
            v.extend_from_slice(&x.destination);
            (3, v)
        }
    }
}

/// Normalised outcome of a v2 parse (owned copy; not for the hot exhaustive loops).
#[derive(Clone, PartialEq, Eq, Debug)]
pub enum O2 {
    Ok { header: Vec<u8>, cmd: u8, tr: u8, fam: u8, addr: Vec<u8>, inc: bool, comp: bool },
    Err { e: String, kind: Option<V2Ref>, inc: bool, comp: bool },
    Panic(String),
}

impl O2 {
    pub fn is_ok(&self) -> bool {
        matches!(self, O2::Ok { .. })
    }
    pub fn class(&self) -> String {
        match self {
            O2::Ok { fam, .. } => format!("Ok(fam{})", fam),
            O2::Err { kind, inc, .. } => format!("Err({}{})", kind.map(|k| k.class()).unwrap_or("tlv"), if *inc { ",incomplete" } else { "" }),
            O2::Panic(_) => "PANIC".into(),
        }
    }
    pub fn flags(&self) -> Option<(bool, bool)> {
        match self {
            O2::Ok { inc, comp, .. } | O2::Err { inc, comp, .. } => Some((*inc, *comp)),
            O2::Panic(_) => None,
        }
    }
    pub fn incomplete(&self) -> bool {
        matches!(self.flags(), Some((true, _)))
    }
}

pub fn o2_of(r: &Result<v2::Header<'_>, v2::ParseError>) -> O2 {
    let (inc, comp) = (r.is_incomplete(), r.is_complete());
    match r {
        Ok(h) => {
            let (fam, addr) = a2_wire(&h.addresses);
            O2::Ok { header: h.header.to_vec(), cmd: cmd_code(h.command), tr: tr_code(h.protocol), fam, addr, inc, comp }
        }
        Err(e) => O2::Err { e: format!("{:?}", e), kind: v2_err_ref(e), inc, comp },
    }
}

pub fn v2_parse(input: &[u8]) -> O2 {
    match guard(|| o2_of(&v2::Header::try_from(input))) {
        Ok(o) => o,
        Err(m) => O2::Panic(m),
    }
}

// ---------------------------------------------------------------------------------------------
// auto-detect

#[derive(Clone, PartialEq, Eq, Debug)]
pub enum OA {
    V1(O1),
    V2(O2),
    Panic(String),
}

impl OA {
    pub fn is_ok(&self) -> bool {
        match self {
            OA::V1(o) => o.is_ok(),
            OA::V2(o) => o.is_ok(),
            OA::Panic(_) => false,
        }
    }
    pub fn flags(&self) -> Option<(bool, bool)> {
        match self {
            OA::V1(o) => o.flags(),
            OA::V2(o) => o.flags(),
            OA::Panic(_) => None,
        }
    }
    pub fn incomplete(&self) -> bool {
        matches!(self.flags(), Some((true, _)))
    }
    pub fn class(&self) -> String {
        match self {
            OA::V1(o) => format!("V1:{}", o.class()),
            OA::V2(o) => format!("V2:{}", o.class()),
            OA::Panic(_) => "PANIC".into(),
        }
    }
}

/// `HeaderResult::parse`, with the completeness flags taken from the HeaderResult itself.
pub fn auto_parse(input: &[u8]) -> OA {
    match guard(|| {
        let r = HeaderResult::parse(input);
        let (inc, comp) = (r.is_incomplete(), r.is_complete());
        match r {
            HeaderResult::V1(r1) => OA::V1(match r1 {
                Ok(h) => O1::Ok { header: h.header.to_string(), addr: a1(&h.addresses), inc, comp },
                Err(e) => O1::Err { kind: k1b(&e), inc, comp },
            }),
            HeaderResult::V2(r2) => {
                let mut o = o2_of(&r2);
                match &mut o {
                    O2::Ok { inc: i, comp: c, .. } | O2::Err { inc: i, comp: c, .. } => {
                        *i = inc;
                        *c = comp;
                    }
                    _ => {}
                }
                OA::V2(o)
            }
        }
    }) {
        Ok(o) => o,
        Err(m) => OA::Panic(m),
    }
}

pub fn enc_case(kind: &str, bytes: &[u8]) -> String {
    format!("{}:{}", kind, spec::json::hex(bytes))
}

pub fn dec_case(case: &str) -> Option<(&str, Vec<u8>)> {
    let (k, h) = case.split_once(':')?;
    Some((k, spec::json::unhex(h)?))
}


// ---------------------------------------------------------------------------------------------
// calling context: the same calls from an ordinary place and from a thread-local destructor

/// A fixed battery of calls into every part of the public API; each line is (property tag,
/// operation, rendered outcome). Pure functions: the lines must not depend on where the battery
/// is called from.
pub fn context_battery() -> Vec<(&'static str, String, String)> {
    use ppp::v2::WriteToHeader;
    use std::fmt::Write as _;
    let mut out: Vec<(&'static str, String, String)> = Vec::new();
    let mut push = |tag: &'static str, op: &str, r: Result<String, String>| {
        out.push((tag, op.to_string(), match r {
            Ok(s) => s,
            Err(m) => format!("PANIC: {}", m),
        }));
    };
    let v1_inputs: [&[u8]; 4] = [b"PROXY TCP4 10.1.2.3 10.4.5.6 1024 443\r\nGET /", b"PROXY TCP6 2001:db8::1 ::ffff:1.2.3.4 1 65535\r\n", b"PROXY UNKNOWN anything at all\r\n", b"PROXY TCP4 10.1.2.3 10.4.5"];
    let mut v2a = spec::v2::SIG.to_vec();
    v2a.extend_from_slice(&[0x21, 0x11, 0, 19, 10, 1, 2, 3, 10, 4, 5, 6, 4, 0, 1, 187, 0x04, 0, 4, 9, 8, 7, 6]);
    let mut v2b = spec::v2::SIG.to_vec();
    v2b.extend_from_slice(&[0x20, 0x00, 0, 0]);
    let v2_inputs: [&[u8]; 3] = [&v2a, &v2b, &v2a[..20]];
    for x in v1_inputs.iter().chain(v2_inputs.iter()) {
        push("C06", &format!("v2::Header::try_from({})", spec::json::show(x, 30)), guard(|| format!("{:?}", v2_parse(x))));
        push("C06", &format!("v1::Header::try_from({})", spec::json::show(x, 30)), guard(|| format!("{:?}", v1_bytes(x))));
        push("C06", &format!("HeaderResult::parse({})", spec::json::show(x, 30)), guard(|| format!("{:?}", auto_parse(x))));
        if let Ok(s) = std::str::from_utf8(x) {
            push("C16", &format!("str entry points({})", spec::json::show(x, 30)), guard(|| format!("{:?} {:?} {:?}", v1_str(s), v1_fromstr_header(s), v1_fromstr_addr(s))));
        }
    }
    for a in [
        v1::Addresses::new_tcp4([10, 1, 2, 3], [10, 4, 5, 6], 1024, 443),
        v1::Addresses::new_tcp6([0x2001, 0xdb8, 0, 0, 0, 0, 0, 1], [0, 0, 0, 0, 0, 0xffff, 0x0102, 0x0304], 1, 65535),
        v1::Addresses::Unknown,
    ] {
        push("C08", &format!("Display {:?}", a), guard(|| {
            let mut s = a.to_string();
            let _ = write!(s, "|{:>5}|{}", a, a);
            s
        }));
    }
    push("C03", "accessors, Debug, to_owned, TLV iteration", guard(|| {
        let mut s = String::new();
        if let Ok(h) = v2::Header::try_from(&v2a[..]) {
            let o = h.to_owned();
            let _ = write!(s, "{:?}|{}|{:?}|{}", h, h, o.tlvs().take(64).collect::<Vec<_>>(), o == h);
        }
        if let Ok(h) = v1::Header::try_from(v1_inputs[0]) {
            let _ = write!(s, "|{:?}|{}|{}|{}", h, h, h.protocol(), h.addresses_str());
        }
        s
    }));
    push("C10", "Builder with a batch, an explicit length and a TLV", guard(|| {
        let r = v2::Builder::with_addresses(v2::Version::Two | v2::Command::Proxy, v2::Protocol::Stream, v2::IPv4::new([10, 1, 2, 3], [10, 4, 5, 6], 1024, 443))
            .write_payloads([1u8, 2, 3].iter())
            .and_then(|b| b.write_tlv(v2::Type::NoOp, &[9u8, 8][..]))
            .and_then(|b| b.write_payload(0xBEEFu16))
            .and_then(|b| b.build());
        format!("{:?}", r.map_err(|e| e.kind()))
    }));
    push("C20", "to_bytes of a TLV, an address block, an integer", guard(|| {
        format!(
            "{:?} {:?} {:?}",
            v2::TypeLengthValue::new(7u8, &[1u8, 2, 3][..]).to_bytes().map_err(|e| e.kind()),
            v2::Addresses::from(v2::IPv4::new([1, 2, 3, 4], [5, 6, 7, 8], 9, 10)).to_bytes().map_err(|e| e.kind()),
            0x01020304u32.to_bytes().map_err(|e| e.kind())
        )
    }));
    push("C19", "socket address pairs", guard(|| {
        let a: std::net::SocketAddr = "10.1.2.3:1024".parse().unwrap();
        let b: std::net::SocketAddr = "10.4.5.6:443".parse().unwrap();
        let c: std::net::SocketAddr = "[2001:db8::1]:1".parse().unwrap();
        format!("{:?} {:?} {:?} {:?}", v1::Addresses::from((a, b)), v2::Addresses::from((a, b)), v1::Addresses::from((c, c)), v2::Addresses::from((a, c)))
    }));
    out
}

struct TeardownGuard {
    slot: std::sync::Arc<std::sync::Mutex<Option<Vec<(&'static str, String, String)>>>>,
}
impl Drop for TeardownGuard {
    fn drop(&mut self) {
        // runs while the thread's locals are being destroyed: locals that were created after this
        // one (those of the crate under test among them) are already gone
        let r = catch_unwind(AssertUnwindSafe(context_battery));
        let lines = match r {
            Ok(l) => l,
            Err(_) => vec![("C03", "the whole battery".to_string(), "PANIC: unwound out of the battery".to_string())],
        };
        if let Ok(mut g) = self.slot.lock() {
            *g = Some(lines);
        }
    }
}
thread_local! {
    static TEARDOWN: RefCell<Option<TeardownGuard>> = const { RefCell::new(None) };
}

/// Runs the battery on a fresh thread three times: before anything else (ordinary context), a
/// second time (after the crate may have initialised per-thread state), and from the destructor
/// of a thread-local that was created before the thread's first call into the crate. Returns the
/// lines (tag, operation, first outcome, other outcome, context) that differ or panicked.
pub fn context_differences() -> Vec<(&'static str, String, String, String, &'static str)> {
    let slot = std::sync::Arc::new(std::sync::Mutex::new(None));
    let slot2 = slot.clone();
    let h = std::thread::spawn(move || {
        TEARDOWN.with(|t| *t.borrow_mut() = Some(TeardownGuard { slot: slot2 }));
        let first = context_battery();
        let second = context_battery();
        (first, second)
    });
    let (first, second) = match h.join() {
        Ok(x) => x,
        Err(_) => return vec![("C03", "the whole battery".into(), "returned".into(), "PANIC: the battery thread died".into(), "ordinary")],
    };
    let third = slot.lock().ok().and_then(|mut g| g.take());
    let mut bad = Vec::new();
    for (i, (tag, op, a)) in first.iter().enumerate() {
        if a.starts_with("PANIC") {
            bad.push((*tag, op.clone(), "should return".to_string(), a.clone(), "ordinary"));
        }
        if let Some((_, _, b)) = second.get(i) {
            if b != a {
                bad.push((*tag, op.clone(), a.clone(), b.clone(), "second call on the thread"));
            }
        }
        match third.as_ref().and_then(|t| t.get(i)) {
            Some((_, _, c)) if c != a => bad.push((*tag, op.clone(), a.clone(), c.clone(), "thread-local destructor at thread exit")),
            Some(_) => {}
            None => bad.push((*tag, op.clone(), a.clone(), "the destructor did not run or did not finish".to_string(), "thread-local destructor at thread exit")),
        }
    }
    bad
}

/// The calling-context check of one monitor: reports the differing lines that carry one of `tags`.
pub fn judge_context(tags: &[&str], rec: &mut spec::record::Recorder) {
    let bad = context_differences();
    rec.case(0xC0DE_C0DE, true);
    rec.events(60);
    let mut any = false;
    for (tag, op, a, b, ctx) in bad {
        if tags.contains(&tag) || (tags.contains(&"C03") && b.starts_with("PANIC")) {
            any = true;
            rec.violation(
                &format!("calling-context:{}", ctx.split(' ').next().unwrap_or("ctx")),
                "context:battery".to_string(),
                format!("context|{}", tag),
                format!("{}: in an ordinary call the outcome is {}, from the {} it is {}", op, &a[..a.len().min(200)], ctx, &b[..b.len().min(300)]),
            );
        }
    }
    if !any {
        rec.class("calling-context|ordinary = second call = thread-local destructor", || format!("{:?}", tags));
    }
}


/// Cold-start probe shared by several monitors: `f` is applied to every input by twelve threads
/// released together, as the first calls into the crate of this process, and once more later;
/// the rendered outcomes must be the same (the later ones are judged by the ordinary workload).
pub fn cold_start_equal(rec: &mut spec::record::Recorder, what: &str, inputs: &[Vec<u8>], f: &(dyn Fn(&[u8]) -> String + Sync)) {
    // every child process starts from another input (a "nothing seen yet" state is primed by
    // whatever comes first); every third one makes its first calls from one thread only. Two
    // races: one in which every thread starts with a binary header, one in which every thread
    // starts with a text line (each side of the crate gets its first deep calls from all threads
    // at the same instant); every second child has the text race first.
    let rot = spec::engine::cold_rot();
    let small = spec::engine::small();
    let nthreads = if small { 3 } else if rot % 3 == 2 { 1 } else { 12 };
    let binary: Vec<&Vec<u8>> = inputs.iter().filter(|x| x.len() >= 16 && x[..12] == spec::v2::SIG).collect();
    let text: Vec<&Vec<u8>> = inputs.iter().filter(|x| !(x.len() >= 16 && x[..12] == spec::v2::SIG)).collect();
    let mut phases = vec![binary, text];
    if rot % 2 == 1 {
        phases.reverse();
    }
    for set in phases {
        if set.is_empty() {
            continue;
        }
        let n = set.len();
        let outs = spec::engine::race_start(nthreads, |t| (0..n).map(|k| f(set[(rot + k + 3 * t) % n])).collect::<Vec<String>>());
        for (t, list) in outs.iter().enumerate() {
            for (k, o) in list.iter().enumerate() {
                let x = set[(rot + k + 3 * t) % n];
                let later = f(x);
                rec.events(2);
                if *o != later {
                    rec.violation("cold-start-race", enc_case("any", x), "cold-start".into(), format!("cold start: thread {} of {}, among the first calls of the process, {} on {:?} gave {}; the same call later gives {}", t, nthreads, what, spec::json::show(x, 40), &o[..o.len().min(200)], &later[..later.len().min(200)]));
                    return;
                }
            }
        }
    }
    rec.class("cold-start|threads released together", || what.to_string());
}

/// A small fixed set of inputs for the cold-start probes: text lines, binary headers, sections.
pub fn cold_inputs() -> Vec<Vec<u8>> {
    if spec::engine::small() {
        // the interpreter: two lines, two binary headers
        let mut v: Vec<Vec<u8>> = vec![b"PROXY TCP4 10.1.2.3 10.4.5.6 1024 443\r\nGET /".to_vec(), b"PROXY TCP6 2001:db8::1 ::ffff:1.2.3.4 1 65535\r\n".to_vec()];
        for i in [3u64, 16] {
            let (vc, fp) = spec::v2::valid_ctl(i);
            let mut rng = spec::rng::Rng::new(i ^ 0xC01D);
            let mut b = Vec::new();
            spec::v2::valid_header_budget(&mut rng, &mut b, vc, fp, Some(30));
            v.push(b);
        }
        return v;
    }
    let mut v: Vec<Vec<u8>> = vec![
        b"PROXY TCP4 10.1.2.3 10.4.5.6 1024 443\r\nGET /".to_vec(),
        b"PROXY TCP6 2001:db8::1 ::ffff:1.2.3.4 1 65535\r\n".to_vec(),
        b"PROXY UNKNOWN anything at all\r\n".to_vec(),
        b"PROXY TCP4 10.1.2.3 10.4.5".to_vec(),
        b"proxy tcp4 1.2.3.4 5.6.7.8 1 2\r\n".to_vec(),
        Vec::new(),
        vec![0u8; 40],
        b"\r\n".to_vec(),
        b"PROXY \r\n".to_vec(),
        b"PROXY UNKNOWN\r\n".to_vec(),
    ];
    // the signature followed by nothing but zero bytes, by nothing but ones, by an unknown version
    for fill in [0x00u8, 0xFF, 0x31] {
        let mut b = spec::v2::SIG.to_vec();
        b.extend_from_slice(&[fill; 24]);
        v.push(b);
    }
    for i in 0..12u64 {
        let (vc, fp) = spec::v2::valid_ctl(i * 2 + 1);
        let mut rng = spec::rng::Rng::new(i ^ 0xC01D);
        let mut b = Vec::new();
        spec::v2::valid_header_budget(&mut rng, &mut b, vc, fp, Some(30));
        v.push(b);
    }
    v
}

// ---------------------------------------------------------------------------------------------
// the whole public API applied to one input, rendered as text

/// Every part of the public API that can be reached from one byte string: the three parsers and
/// the `&str` / `FromStr` entry points, the views, owned copies and formatting of whatever they
/// accept, the TLV walk, two rebuilds through the builder, the encoders, and the conversions of
/// the decoded endpoints. All of it is specified as a pure function of `x`, so the text must not
/// depend on when, where or on which thread it is computed (cold-start probe, calling contexts).
pub fn api_digest(x: &[u8]) -> String {
    api_digest_for("", x)
}

/// Which parts of the digest a property speaks about (everything is always *executed*; a monitor
/// only reports differences in the parts that belong to its own statement, C03 only panics).
fn digest_parts(id: &str) -> &'static [&'static str] {
    match id {
        "C01" => &["v1", "text"],
        "C02" | "C17" => &["v2"],
        "C03" => &[],
        "C04" | "C06" => &["v1", "v2", "auto"],
        "C05" | "C12" => &["v1", "v2", "auto", "text"],
        "C07" | "C09" | "C10" | "C13" | "C14" => &["v2-views"],
        "C08" | "C15" | "C19" => &["v1-views"],
        "C11" => &["v2-views", "section"],
        "C16" => &["v1", "text", "v1-views", "v2-views"],
        "C18" => &["v1", "text"],
        "C20" => &["encoders", "v2-views"],
        _ => &["v2", "v1", "auto", "text", "v1-views", "v2-views", "section", "encoders"],
    }
}

pub fn api_digest_for(id: &str, x: &[u8]) -> String {
    use ppp::v2::WriteToHeader;
    use std::fmt::Write as _;
    let mut s = String::new();
    let keep = digest_parts(id);
    let part = |s: &mut String, name: &str, r: Result<String, String>| {
        match r {
            Ok(t) if keep.contains(&name) => {
                let _ = write!(s, "[{}: {}]", name, t);
            }
            Ok(_) => {}
            // a panic belongs to C03 and to the property the part belongs to
            Err(m) if keep.contains(&name) || id == "C03" || id.is_empty() => {
                let _ = write!(s, "[{}: PANIC {}]", name, m);
            }
            Err(_) => {}
        }
    };
    part(&mut s, "v2", guard(|| format!("{:?}", v2_parse(x))));
    part(&mut s, "v1", guard(|| format!("{:?}", v1_bytes(x))));
    part(&mut s, "auto", guard(|| format!("{:?}", auto_parse(x))));
    if let Ok(t) = std::str::from_utf8(x) {
        part(&mut s, "text", guard(|| format!("{:?} {:?} {:?}", v1_str(t), v1_fromstr_header(t), v1_fromstr_addr(t))));
    }
    part(&mut s, "v1-views", guard(|| match v1::Header::try_from(x) {
        Ok(h) => {
            let o = h.to_owned();
            let conv = match h.addresses {
                v1::Addresses::Tcp4(a) => {
                    let p = (std::net::SocketAddr::from((a.source_address, a.source_port)), std::net::SocketAddr::from((a.destination_address, a.destination_port)));
                    format!("{:?} {:?} {:?}", v1::Addresses::from(p), v2::Addresses::from(p), v1::Addresses::new_tcp4(a.source_address, a.destination_address, a.source_port, a.destination_port))
                }
                v1::Addresses::Tcp6(a) => {
                    let p = (std::net::SocketAddr::from((a.source_address, a.source_port)), std::net::SocketAddr::from((a.destination_address, a.destination_port)));
                    format!("{:?} {:?} {:?}", v1::Addresses::from(p), v2::Addresses::from(p), v2::IPv6::new(a.source_address, a.destination_address, a.source_port, a.destination_port))
                }
                v1::Addresses::Unknown => String::new(),
            };
            format!("{}|{}|{}|{}|{:>3}|{:?}|{}|{}", h.protocol(), h.addresses_str(), h, h.addresses, h.addresses, o, o == h, conv)
        }
        Err(e) => format!("{} {} {}", e, e.is_incomplete(), e.is_complete()),
    }));
    part(&mut s, "v2-views", guard(|| match v2::Header::try_from(x) {
        Ok(h) => {
            let o = h.to_owned();
            let items: Vec<_> = h.tlvs().take(40).collect();
            let raw = v2::Builder::new(h.header[12], h.header[13])
                .write_payload(h.address_bytes())
                .and_then(|b| b.write_payload(h.tlv_bytes()))
                .and_then(|b| b.build())
                .map_err(|e| e.kind());
            let dec = v2::Builder::with_addresses(h.header[12], h.protocol, h.addresses)
                .write_payloads(h.tlvs().take(h.len() / 3 + 3).filter_map(|t| t.ok()))
                .and_then(|b| b.build())
                .map_err(|e| e.kind());
            let tb = h.addresses.to_bytes().map_err(|e| e.kind());
            let first = h.tlvs().next().and_then(|t| t.ok()).map(|t| (t.to_owned().to_bytes().map_err(|e| e.kind()), (t.kind, t.value.as_ref()).to_bytes().map_err(|e| e.kind())));
            format!("{}|{:?}|{}|{}|{:?}|{:?}|{:?}|{:?}|{}|{:?}|{:?}|{:?}|{:?}", h.length(), h.address_family(), h.address_bytes().len(), h.tlv_bytes().len(), h.command, h.protocol, h.addresses, items, o == h, raw, dec, tb, first)
        }
        Err(e) => format!("{} {} {}", e, e.is_incomplete(), e.is_complete()),
    }));
    part(&mut s, "section", guard(|| {
        let t = v2::TypeLengthValues::from(&x[..x.len().min(600)]);
        // bounded: a section of n bytes has at most n/3 + 1 items (an iterator that never ends is
        // the ordinary workload's finding, it must not hang the probe)
        let n = t.clone().take(x.len() / 3 + 3).count();
        let items: Vec<_> = t.clone().take(40).collect();
        format!("{} {} {:?} {:?}", t.len(), n, items, t.to_bytes().map(|b| b.len()).map_err(|e| e.kind()))
    }));
    part(&mut s, "encoders", guard(|| {
        let k = x.len() as u64 ^ 0x0102_0304_0506_0708;
        format!("{:?} {:?} {:?} {:?} {:?}", (k as u16).to_bytes().ok(), (k as i32).to_bytes().ok(), (k as u128 * 3).to_bytes().ok(), v2::Type::NoOp.to_bytes().ok(), x[..x.len().min(20)].to_bytes().ok())
    }));
    s
}

/// The cold-start probe every monitor runs unless it has a sharper one of its own: the first calls
/// of the process go through the whole API from twelve threads at once.
pub fn default_cold_start(id: &'static str, rec: &mut spec::record::Recorder) {
    cold_start_equal(rec, "the whole public API (api_digest)", &cold_inputs(), &move |x| api_digest_for(id, x));
}

/// The same digest from the three calling contexts (ordinary, second call of the thread, the
/// destructor of a thread-local created before the thread's first call into the crate).
pub fn judge_digest_contexts(id: &'static str, rec: &mut spec::record::Recorder) {
    struct G(std::sync::Arc<std::sync::Mutex<Option<Vec<String>>>>, &'static str);
    impl Drop for G {
        fn drop(&mut self) {
            let id = self.1;
            let api_digest = |x: &[u8]| api_digest_for(id, x);
            let r = catch_unwind(AssertUnwindSafe(|| cold_inputs().iter().map(|x| api_digest(x)).collect::<Vec<String>>())).unwrap_or_else(|_| vec!["PANIC: unwound out of the digest".to_string()]);
            if let Ok(mut g) = self.0.lock() {
                *g = Some(r);
            }
        }
    }
    thread_local! {
        static SLOT: RefCell<Option<G>> = const { RefCell::new(None) };
    }
    let slot = std::sync::Arc::new(std::sync::Mutex::new(None));
    let slot2 = slot.clone();
    let h = std::thread::spawn(move || {
        let api_digest = |x: &[u8]| api_digest_for(id, x);
        SLOT.with(|t| *t.borrow_mut() = Some(G(slot2, id)));
        let a: Vec<String> = cold_inputs().iter().map(|x| api_digest(x)).collect();
        let b: Vec<String> = cold_inputs().iter().map(|x| api_digest(x)).collect();
        (a, b)
    });
    rec.case(0xD16E_57, true);
    let (a, b) = match h.join() {
        Ok(x) => x,
        Err(_) => {
            rec.class("MONITOR-INTERNAL-PANIC", || "digest thread".to_string());
            return;
        }
    };
    let c = slot.lock().ok().and_then(|mut g| g.take()).unwrap_or_default();
    let here: Vec<String> = cold_inputs().iter().map(|x| api_digest_for(id, x)).collect();
    rec.events(4 * a.len() as u64);
    let inputs = cold_inputs();
    let diff = |p: &str, q: &str| -> String {
        let at = p.bytes().zip(q.bytes()).position(|(x, y)| x != y).unwrap_or(p.len().min(q.len()));
        let cut = |t: &str| {
            let mut lo = at.saturating_sub(60);
            while !t.is_char_boundary(lo) {
                lo -= 1;
            }
            let mut hi = (at + 100).min(t.len());
            while !t.is_char_boundary(hi) {
                hi += 1;
            }
            t[lo..hi].to_string()
        };
        format!("...{}... versus ...{}...", cut(p), cut(q))
    };
    let mut bad = false;
    for (i, x) in inputs.iter().enumerate() {
        for (ctx, other) in [("second call on the thread", b.get(i)), ("thread-local destructor at thread exit", c.get(i)), ("another thread", here.get(i))] {
            let differs = match other {
                Some(o) => *o != a[i],
                None => true,
            };
            if differs || a[i].contains("PANIC") {
                bad = true;
                rec.violation(
                    &format!("calling-context:{}", ctx.split(' ').next().unwrap_or("ctx")),
                    enc_case("any", x),
                    "context|digest".into(),
                    format!("the public API applied to {:?}: first call on a fresh thread versus {}: {}", spec::json::show(x, 40), ctx, other.map(|o| diff(&a[i], o)).unwrap_or_else(|| "no result (the destructor did not run or did not finish)".into())),
                );
                break;
            }
        }
    }
    if !bad {
        rec.class("calling-context|whole API: first = second = destructor = other thread", || format!("{} inputs", inputs.len()));
    }
}
