//! C18 — v1 verdict is final once the first line break or 107 bytes have been seen.
//! Predicate monitor (`spec::v1::must_be_final`) plus a bounded-progress receiver: feeding any
//! stream byte by byte, the verdict becomes complete no later than min(first CR + 2, 107) bytes.

use crate::adapt::*;
use spec::engine::{Monitor, StreamSpec, Tier};
use spec::json::show;
use spec::record::{skeleton_text, Recorder};
use spec::rng::hash_bytes;
use spec::v1::{final_by, must_be_final};
use spec::v1gen::{v1_case, v1_streams};

pub struct C18;

fn shape(x: &[u8]) -> &'static str {
    match x.iter().position(|&b| b == b'\r') {
        Some(i) if i + 1 < x.len() && x[i + 1] == b'\n' => "oracle:final|cr-lf",
        Some(i) if i + 1 < x.len() => {
            if x[i + 1] < 0x80 {
                "oracle:final|cr-then-other-byte"
            } else {
                "oracle:final|cr-then-non-ascii-byte"
            }
        }
        Some(_) => "oracle:open|cr-last",
        None if x.len() >= 107 => "oracle:final|107-bytes-without-cr",
        None => "oracle:open|short-without-cr",
    }
}

fn entries(x: &[u8]) -> Vec<(&'static str, O1)> {
    let mut v = vec![("v1-bytes", v1_bytes(x))];
    if let Ok(s) = std::str::from_utf8(x) {
        v.push(("v1-str", v1_str(s)));
        v.push(("fromstr-header", v1_fromstr_header(s)));
        v.push(("fromstr-addr", v1_fromstr_addr(s)));
    }
    v
}

/// One call only (first pass over a history): an input that meets the precondition must come back
/// complete from the entry point `which`.
pub fn judge_light(x: &[u8], which: u64, rec: &mut Recorder) {
    let (entry, o) = match (which % 4, std::str::from_utf8(x)) {
        (1, Ok(s)) => ("v1-str", v1_str(s)),
        (2, Ok(s)) => ("fromstr-header", v1_fromstr_header(s)),
        (3, Ok(s)) => ("fromstr-addr", v1_fromstr_addr(s)),
        _ => ("v1-bytes", v1_bytes(x)),
    };
    rec.event();
    if must_be_final(x) && !matches!(o, O1::Panic(_)) && (o.incomplete() || !matches!(o.flags(), Some((false, true)))) {
        rec.violation(
            &format!("final-input-flagged-incomplete:{}", entry),
            enc_case("v1", x),
            skeleton_text(x),
            format!("{}: input {:?} already contains its first line break followed by a byte (or 107 bytes without CR), yet the result {} is flagged incomplete (single call, right after a related input in the same buffer)", entry, show(x, 160), o.class()),
        );
    }
}

pub fn judge(x: &[u8], rec: &mut Recorder, simulate: bool) {
    let fin = must_be_final(x);
    rec.case(hash_bytes(x), fin);
    rec.class(shape(x), || show(x, 120));
    // every input goes through every entry point (an input that does not meet the precondition
    // is not judged, but the call is part of the history the next input is parsed after); once
    // before and - when the receiver runs - once after the receiver simulation
    // "because no later byte can change it": the verdict on an input that meets the precondition
    // is the verdict on every extension of it (checked for three continuations, real vs real)
    if fin && hash_bytes(x) % 2 == 0 {
        let base = entries(x);
        for t in [&b"\r\n"[..], &b"GET / HTTP/1.1\r\nHost: a\r\n\r\n"[..], &b"PROXY UNKNOWN\r\n"[..], &b"x"[..]] {
            let mut y = x.to_vec();
            y.extend_from_slice(t);
            for ((entry, o), (_, o2)) in base.iter().zip(entries(&y).iter()) {
                rec.event();
                if matches!(o, O1::Panic(_)) || matches!(o2, O1::Panic(_)) {
                    continue;
                }
                // the verdict = the success (same header, same addresses) or "terminal error"; which
                // of two terminal errors is reported may depend on later bytes (a line of 107+
                // bytes is HeaderTooLong until a CR arrives and InvalidUtf8 afterwards) and is
                // not part of the statement
                let same = match (o, o2) {
                    (O1::Ok { .. }, O1::Ok { .. }) => o == o2,
                    (O1::Err { inc: false, comp: true, .. }, O1::Err { inc: false, comp: true, .. }) => true,
                    _ => false,
                };
                if !same {
                    rec.violation(
                        &format!("later-bytes-change-the-verdict:{}", entry),
                        enc_case("v1", x),
                        skeleton_text(x),
                        format!("{}: input {:?} already has a final verdict {}, but followed by {:?} the verdict is {}", entry, show(x, 160), o.class(), show(t, 40), o2.class()),
                    );
                    break;
                }
            }
        }
    }
    for pass in 0..2 {
        if pass == 1 {
            if !(simulate && x.len() <= 260) {
                break;
            }
            receiver(x, rec);
        }
        for (entry, o) in entries(x) {
            rec.event();
            if !fin {
                continue;
            }
            match &o {
                O1::Panic(_) => rec.class("observed:panic(C03's subject)", || show(x, 120)),
                _ => {
                    if o.incomplete() || !matches!(o.flags(), Some((false, true))) {
                        rec.violation(
                            &format!("final-input-flagged-incomplete:{}", entry),
                            enc_case("v1", x),
                            skeleton_text(x),
                            format!("{}: input {:?} already contains its first line break followed by a byte (or 107 bytes without CR), yet the result {} is flagged incomplete", entry, show(x, 160), o.class()),
                        );
                    } else {
                        rec.class(&format!("{}|{}|{}", entry, &shape(x)[7..], o.class()), || show(x, 120));
                    }
                }
            }
        }
    }
}

/// bounded-progress receiver: byte-at-a-time, stop at the first complete verdict
fn receiver(x: &[u8], rec: &mut Recorder) {
    {
        if let Some(limit) = final_by(x) {
            for entry in 0..2 {
                let mut stopped_at = None;
                for n in 1..=x.len() {
                    let o = if entry == 0 {
                        v1_bytes(&x[..n])
                    } else {
                        match std::str::from_utf8(&x[..n]) {
                            Ok(s) => v1_str(s),
                            Err(_) => continue, // a text receiver cannot be handed a split character
                        }
                    };
                    rec.event();
                    if matches!(o, O1::Panic(_)) {
                        stopped_at = Some(n);
                        break;
                    }
                    if !o.incomplete() {
                        stopped_at = Some(n);
                        break;
                    }
                    if n > limit + 8 {
                        break;
                    }
                }
                // for the text receiver the limit moves to the next character boundary
                let eff_limit = if entry == 0 { limit } else { (limit..=x.len()).find(|&n| std::str::from_utf8(&x[..n]).is_ok()).unwrap_or(usize::MAX) };
                match stopped_at {
                    Some(n) if n <= eff_limit => rec.class(if entry == 0 { "receiver|bytes|final-in-time" } else { "receiver|text|final-in-time" }, || format!("{} bytes of {:?}", n, show(x, 100))),
                    other => {
                        if eff_limit != usize::MAX {
                            rec.violation(
                                if entry == 0 { "receiver-not-final-in-time:v1-bytes" } else { "receiver-not-final-in-time:v1-str" },
                                enc_case("v1", x),
                                skeleton_text(x),
                                format!("byte-at-a-time receiver on {:?}: verdict first complete at {:?} buffered bytes, must be final by {}", show(x, 160), other, eff_limit),
                            )
                        }
                    }
                }
            }
        }
    }
}

impl Monitor for C18 {
    fn id(&self) -> &'static str {
        "C18"
    }
    fn rule(&self) -> &'static str {
        "cases = inputs of the v1 workload (terminated lines with 0-8 fields for each protocol keyword via the exhaustive token sequences and edits, CR followed by each of the 256 byte values after every line shape, CR-free inputs of 100-120 and 200 bytes, single-field faults, byte mutations, random bytes with CRs); for every input whose first CR is followed by at least one byte, or that has 107+ bytes and no CR, all four v1 entry points must report a complete result (success or terminal error); in addition every input of at most 260 bytes is fed to a byte-at-a-time receiver whose verdict must be complete by min(first CR + 2, 107) buffered bytes; non-trivial = the input satisfies the finality precondition; distinct = distinct inputs"
    }
    fn streams(&self, tier: Tier) -> Vec<StreamSpec> {
        v1_streams(tier, 8_000)
    }
    fn run_case(&self, stream: &str, idx: u64, seed: u64, rec: &mut Recorder) {
        let x = v1_case(stream, idx, seed);
        // the receiver simulation costs ~len parses: run it on every 4th case of the big streams
        let simulate = idx % 4 == 0 || stream == "v1-token-edit1" || stream == "v1-len";
        spec::sib::run_v1_two_pass(&x, idx, 4, |x, light| if light { judge_light(x, idx / 64, rec) } else { judge(x, rec, simulate) });
    }
    fn floor(&self, tier: Tier) -> Vec<&'static str> {
        if tier == Tier::Miri {
            return vec!["oracle:final|cr-lf", "oracle:final|cr-then-other-byte"];
        }
        vec![
            "oracle:final|cr-lf",
            "oracle:final|cr-then-other-byte",
            "oracle:final|cr-then-non-ascii-byte",
            "oracle:final|107-bytes-without-cr",
            "oracle:open|cr-last",
            "oracle:open|short-without-cr",
        ]
    }
    fn replay(&self, case: &str, rec: &mut Recorder) {
        if let Some((_, bytes)) = dec_case(case) {
            judge(&bytes, rec, true);
        }
    }
    fn assumptions(&self) -> Vec<&'static str> {
        vec!["nothing is demanded of inputs that end with their first CR or are shorter than 107 bytes without CR", "a panic on such an input is C03's violation and only counted here"]
    }
}
