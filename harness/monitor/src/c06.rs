//! C06 — version auto-detection agrees with the two dedicated parsers.
//! A relation between three real executions on the same input; no model of the parsers needed.

use crate::adapt::*;
use spec::engine::{Monitor, StreamSpec, Tier};
use spec::json::show;
use spec::record::{skeleton_text, Recorder};
use spec::rng::hash_bytes;
use spec::v1gen::{v1_case, v1_streams};
use spec::v2::{v2_case, v2_ref, v2_streams, V2Ref};

pub struct C06;

fn strip2(o: &O2) -> Option<(&Vec<u8>, u8, u8, u8, &Vec<u8>)> {
    match o {
        O2::Ok { header, cmd, tr, fam, addr, .. } => Some((header, *cmd, *tr, *fam, addr)),
        _ => None,
    }
}
fn strip1(o: &O1) -> Option<(&String, &A1)> {
    match o {
        O1::Ok { header, addr, .. } => Some((header, addr)),
        _ => None,
    }
}

pub fn judge(x: &[u8], rec: &mut Recorder, kind: &str) {
    let o2 = v2_ref(x);
    let nontrivial = !matches!(o2, V2Ref::Prefix) || x.starts_with(b"PROXY");
    rec.case(hash_bytes(x), nontrivial);
    // oracle-side class of the input
    let v1acc = matches!(spec::v1::v1_ref(x), spec::v1::V1Ref::Accept(_));
    let ocls = if o2.is_ok() {
        "oracle:v2-ok"
    } else if o2.is_incomplete() {
        "oracle:v2-incomplete"
    } else if v1acc {
        "oracle:v2-terminal,v1-accept"
    } else if !spec::v1::must_be_final(x) {
        "oracle:v2-terminal,v1-open"
    } else {
        "oracle:v2-terminal,v1-reject"
    };
    rec.class(ocls, || show(x, 80));

    let a = v2_parse(x);
    let b = v1_bytes(x);
    let c = auto_parse(x);
    rec.events(3);
    if matches!(a, O2::Panic(_)) || matches!(b, O1::Panic(_)) || matches!(c, OA::Panic(_)) {
        rec.class("observed:panic(C03's subject)", || show(x, 80));
        return;
    }
    let a_inc = a.incomplete();
    let b_inc = b.incomplete();
    let c_inc = c.incomplete();
    let c_comp = matches!(c.flags(), Some((_, true)));
    let mut bad: Option<(&str, String)> = None;
    if a.is_ok() && b.is_ok() {
        bad = Some(("both-accept", "the v2 and the v1 parser both accept this input".into()));
    } else if a.is_ok() {
        match &c {
            OA::V2(co) if strip2(co) == strip2(&a) && !c_inc && c_comp => {}
            _ => bad = Some(("v2-success-not-returned", format!("v2 parser accepts ({}), auto gives {}", a.class(), c.class()))),
        }
    } else if a_inc {
        if c.is_ok() || !c_inc || c_comp {
            bad = Some(("v2-incomplete-not-propagated", format!("v2 parser says {} (incomplete), v1 says {}, auto gives {} (incomplete={})", a.class(), b.class(), c.class(), c_inc)));
        }
    } else if b.is_ok() {
        match &c {
            OA::V1(co) if strip1(co) == strip1(&b) && !c_inc && c_comp => {}
            _ => bad = Some(("v1-success-not-returned", format!("v2 terminal ({}), v1 parser accepts ({}), auto gives {}", a.class(), b.class(), c.class()))),
        }
    } else if b_inc {
        if c.is_ok() || !c_inc || c_comp {
            bad = Some(("v1-incomplete-not-propagated", format!("v2 terminal ({}), v1 incomplete ({}), auto gives {} (incomplete={})", a.class(), b.class(), c.class(), c_inc)));
        }
    } else if c.is_ok() || c_inc || !c_comp {
        bad = Some(("terminal-not-propagated", format!("v2 terminal ({}), v1 terminal ({}), auto gives {} (incomplete={})", a.class(), b.class(), c.class(), c_inc)));
    }
    let obs = format!(
        "v2:{} v1:{} auto:{}",
        if a.is_ok() { "ok" } else if a_inc { "incomplete" } else { "terminal" },
        if b.is_ok() { "ok" } else if b_inc { "incomplete" } else { "terminal" },
        match &c {
            OA::V1(_) => if c.is_ok() { "V1-ok" } else if c_inc { "V1-incomplete" } else { "V1-terminal" },
            _ => if c.is_ok() { "V2-ok" } else if c_inc { "V2-incomplete" } else { "V2-terminal" },
        }
    );
    rec.class(&obs, || show(x, 80));
    if rec.verbose {
        println!("  {} :: a={:?} b={:?} c={:?}", obs, a.class(), b.class(), c.class());
    }
    // "returns that parser's header unchanged and tags it with the matching version": the tagging
    // itself - HeaderResult::from(result) for both result types - keeps the result and delegates
    // the completeness flags (every fourth input)
    if bad.is_none() && hash_bytes(x) % 4 == 0 {
        use ppp::{HeaderResult, PartialResult};
        let t = guard(|| {
            let r2 = ppp::v2::Header::try_from(x);
            let f2 = (r2.is_incomplete(), r2.is_complete());
            let ok2 = r2.is_ok();
            let h2 = HeaderResult::from(r2);
            let tag2 = matches!(h2, HeaderResult::V2(_));
            let g2 = (h2.is_incomplete(), h2.is_complete());
            let same2 = match &h2 {
                HeaderResult::V2(r) => r.is_ok() == ok2 && o2_of(r) == { let mut o = a.clone(); if let O2::Ok { inc, comp, .. } | O2::Err { inc, comp, .. } = &mut o { *inc = f2.0; *comp = f2.1; } o },
                _ => false,
            };
            let r1 = ppp::v1::Header::try_from(x);
            let f1 = (r1.is_incomplete(), r1.is_complete());
            let ok1 = r1.is_ok();
            let h1 = HeaderResult::from(r1);
            let tag1 = matches!(h1, HeaderResult::V1(_));
            let g1 = (h1.is_incomplete(), h1.is_complete());
            let same1 = match &h1 {
                HeaderResult::V1(r) => r.is_ok() == ok1,
                _ => false,
            };
            (tag2 && same2 && f2 == g2, tag1 && same1 && f1 == g1, format!("v2: tagged-V2={} same-result={} flags {:?} -> {:?}; v1: tagged-V1={} same-result={} flags {:?} -> {:?}", tag2, same2, f2, g2, tag1, same1, f1, g1))
        });
        rec.events(2);
        match t {
            Ok((true, true, _)) => rec.class("from-impls|tag-and-flags-kept", || show(x, 60)),
            Ok((_, _, d)) => bad = Some(("from-impl-changes-result", d)),
            Err(m) => bad = Some(("from-impl-changes-result", format!("panic: {}", m))),
        }
    }
    if let Some((rule, detail)) = bad {
        rec.violation(rule, enc_case(kind, &x[..x.len().min(70_100)]), skeleton_text(&x[..x.len().min(60)]), format!("{} on {:?}: {}", rule, show(x, 120), detail));
    }
}

impl Monitor for C06 {
    fn id(&self) -> &'static str {
        "C06"
    }
    fn rule(&self) -> &'static str {
        "cases = the union of the v1 and v2 workloads (every control pair / length ladder / presence relation, every prefix of the v2 signature followed by every byte value, signature followed by text, text followed by a v2 header, cuts, random bytes); each input is parsed by v2::Header::try_from, v1::Header::try_from(&[u8]) and HeaderResult::parse in the same run and the three results must satisfy the composition rule; non-trivial = the input passes the v2 signature check or starts with 'PROXY'; distinct = distinct inputs"
    }
    fn streams(&self, tier: Tier) -> Vec<StreamSpec> {
        let mut s = v1_streams(tier, 5_000);
        s.extend(v2_streams(tier, 10_000));
        if tier != Tier::Miri {
            s.push(spec::engine::exhaustive("c06-huge", 18));
        }
        s.push(spec::engine::exhaustive("calling-context", 2));
        s
    }
    fn run_case(&self, stream: &str, idx: u64, seed: u64, rec: &mut Recorder) {
        if stream == "calling-context" {
            // the same calls from an ordinary place, a second time, and from a thread-local
            // destructor at thread exit (pure functions do not depend on where they are called)
            let _ = (idx, seed);
            if spec::engine::layer().starts_with("miri") {
                return;
            }
            crate::adapt::judge_context(&["C06"], rec);
            return;
        }
        if stream == "c06-huge" {
            // a header at the front of a multi-GiB buffer: the auto-detecting parser returns what
            // the dedicated parser returns
            if !spec::engine::huge_ok() {
                return;
            }
            let mut rng = spec::rng::Rng::new(idx ^ seed.rotate_left(11));
            let v1 = idx % 3 == 2;
            let h: Vec<u8> = if v1 {
                let mut l = spec::v1gen::valid_ascii_body(&mut rng).into_bytes();
                l.extend_from_slice(b"\r\n");
                l
            } else {
                let mut b = Vec::new();
                let (vc, fp) = spec::v2::valid_ctl(idx);
                spec::v2::valid_header_budget(&mut rng, &mut b, vc, fp, Some(40));
                b
            };
            let size = spec::engine::HUGE_SIZES[(idx / 3) as usize % spec::engine::HUGE_SIZES.len()];
            rec.case(hash_bytes(&h) ^ size as u64, true);
            rec.events(3);
            let r = spec::engine::with_huge(&h, size, |x| (v2_parse(x), v1_bytes(x), auto_parse(x)));
            match r {
                None => rec.class("skipped:huge-allocation-refused", || size.to_string()),
                Some((a, b, c)) => {
                    let fine = match &c {
                        OA::V2(co) => a.is_ok() && strip2(co) == strip2(&a),
                        OA::V1(co) => !a.is_ok() && b.is_ok() && strip1(co) == strip1(&b),
                        OA::Panic(_) => false,
                    };
                    if fine {
                        rec.class("oracle:header-in-a-multi-GiB-buffer", || format!("{} bytes", size));
                    } else {
                        rec.violation(if a.is_ok() { "v2-success-not-returned" } else { "v1-success-not-returned" }, enc_case(if v1 { "v1" } else { "v2" }, &h), "huge-buffer".into(), format!("header {:?} at the front of a zero-filled buffer of {} bytes: v2 parser {}, v1 parser {}, auto {}", show(&h, 60), size, a.class(), b.class(), c.class()));
                    }
                }
            }
            return;
        }
        if stream.starts_with("v1-") {
            let x = v1_case(stream, idx, seed);
            spec::sib::run_v1(&x, idx, 4, |x| judge(x, rec, "v1"));
        } else {
            crate::c02::SCRATCH.with(|b| {
                let mut b = b.borrow_mut();
                v2_case(stream, idx, seed, &mut b);
                if stream == "v2-ctl" || stream == "v2-dense" {
                    spec::engine::placed(&b, idx / 3, |x| judge(x, rec, "v2"));
                } else {
                    spec::sib::run_v2(&b, idx, 4, |x| judge(x, rec, "v2"));
                }
            });
        }
    }
    fn cold_start(&self, rec: &mut Recorder) {
        cold_start_equal(rec, "v2 parser, v1 parser, HeaderResult::parse", &cold_inputs(), &|x| format!("{:?} {:?} {:?}", v2_parse(x), v1_bytes(x), auto_parse(x)));
    }
    fn floor(&self, tier: Tier) -> Vec<&'static str> {
        if tier == Tier::Miri {
            return vec!["oracle:v2-ok", "oracle:v2-terminal,v1-accept"];
        }
        vec!["oracle:v2-ok", "oracle:v2-incomplete", "oracle:v2-terminal,v1-accept", "oracle:v2-terminal,v1-open", "oracle:v2-terminal,v1-reject"]
    }
    fn replay(&self, case: &str, rec: &mut Recorder) {
        if let Some((k, bytes)) = dec_case(case) {
            judge(&bytes, rec, k);
        }
    }
}
