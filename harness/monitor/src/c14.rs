//! C14 — v2 header views partition the header consistently.
//! Algebraic identities between the accessors of an accepted header, computed against the raw
//! input bytes only.

use crate::adapt::*;
use crate::c02::{with_big, SCRATCH};
use ppp::v2;
use spec::engine::{exhaustive, stream, Monitor, StreamSpec, Tier};
use spec::json::show;
use spec::record::Recorder;
use spec::rng::{hash_bytes, mix};
use spec::v2::{fam_size, v2_case, v2_ref, valid_ctl, V2Ref};

pub struct C14;

fn check(h: &v2::Header<'_>, input: &[u8], total: usize, fam: u8, who: &str) -> Vec<(String, String)> {
    let mut bad: Vec<(String, String)> = Vec::new();
    let mut no = |rule: &str, d: String| bad.push((format!("{}:{}", rule, who), d));
    let payload = &input[16..total];
    let size = fam_size(fam).unwrap_or(0);
    let want_addr_len = if fam == 0 { payload.len() } else { size };
    let ab = h.address_bytes();
    let tb = h.tlv_bytes();
    if ab.len() + tb.len() != payload.len() || ab != &payload[..ab.len().min(payload.len())] || tb != &payload[ab.len().min(payload.len())..] {
        no("views-do-not-partition", format!("address_bytes ({}) ++ tlv_bytes ({}) != payload ({} bytes)", ab.len(), tb.len(), payload.len()));
    }
    if ab.len() != want_addr_len {
        no("address-view-size", format!("address view has {} bytes, family {} needs {}", ab.len(), fam, want_addr_len));
    }
    let field = u16::from_be_bytes([input[14], input[15]]) as usize;
    if h.length() + 16 != h.len() || h.len() != h.as_bytes().len() || h.length() != field || h.as_bytes() != &input[..total] {
        no("lengths", format!("length()={} len()={} as_bytes().len()={} length field={}", h.length(), h.len(), h.as_bytes().len(), field));
    }
    if h.is_empty() {
        no("is-empty", "is_empty() on an accepted header".into());
    }
    if fam_code(h.address_family()) != fam || fam_code(h.addresses.address_family()) != fam {
        no("family", format!("address_family()={:?}, addresses.address_family()={:?}, wire nibble {}", h.address_family(), h.addresses.address_family(), fam));
    }
    if h.addresses.len() != size || u16::from(h.address_family()) as usize != size || h.addresses.is_empty() != (fam == 0) || h.address_family().byte_length() != if fam == 0 { None } else { Some(size) } {
        no("family-size", format!("addresses.len()={} u16::from(family)={} is_empty={} for family {}", h.addresses.len(), u16::from(h.address_family()), h.addresses.is_empty(), fam));
    }
    let (dfam, wire) = a2_wire(&h.addresses);
    if dfam != fam || wire != payload[..size.min(payload.len())] || (fam != 0 && payload.len() < size) {
        no("decoded-fields", format!("decoded {:?} is not the big-endian reading of the address view", h.addresses));
    }
    let t = h.tlvs();
    if t.as_bytes() != tb || t.len() as usize != tb.len() || t.is_empty() != tb.is_empty() {
        no("tlvs-view", format!("tlvs().as_bytes() has {} bytes, tlv_bytes() {}", t.as_bytes().len(), tb.len()));
    }
    bad
}

pub fn judge(input: &[u8], rec: &mut Recorder, hash: u64, copy_owned: bool) {
    // the identities are about every header the IMPLEMENTATION accepts; the sizes they are
    // compared with come from the wire (family nibble, length field), not from the oracle's verdict
    let oracle_ok = matches!(v2_ref(input), V2Ref::Ok { .. });
    let wire = if input.len() >= 16 && input[..12] == spec::v2::SIG && (input[13] >> 4) <= 3 {
        let total = 16 + u16::from_be_bytes([input[14], input[15]]) as usize;
        if total <= input.len() {
            Some((total, input[13] >> 4))
        } else {
            None
        }
    } else {
        None
    };
    let (total, fam) = match wire {
        Some(w) => w,
        None => {
            // not a complete header on the wire; if the implementation accepts it all the same, the
            // length identities cannot hold (the bytes are not there)
            if input.len() >= 16 && input[..12] == spec::v2::SIG {
                let field = u16::from_be_bytes([input[14], input[15]]) as usize;
                if let Ok(Some((l, n, b))) = guard(|| v2::Header::try_from(input).ok().map(|h| (h.length(), h.len(), h.as_bytes().len()))) {
                    rec.case(hash, true);
                    rec.event();
                    if l != field || n != 16 + field || b != n {
                        rec.violation("lengths:borrowed", enc_case("v2", &input[..input.len().min(300)]), "incomplete-on-the-wire".into(), format!("lengths on {:?} ({} bytes supplied): length()={} len()={} as_bytes().len()={} length field={}", show(&input[..input.len().min(32)], 32), input.len(), l, n, b, field));
                    }
                    return;
                }
            }
            rec.case(hash, false);
            return;
        }
    };
    if !oracle_ok {
        // not a well-formed header: nothing is demanded unless the implementation accepts it anyway
        if !matches!(guard(|| v2::Header::try_from(input).is_ok()), Ok(true)) {
            rec.case(hash, false);
            return;
        }
        rec.class("observed:accepted-although-the-oracle-rejects(C02's subject; identities still checked)", || show(&input[..input.len().min(32)], 32));
    }
    rec.case(hash, true);
    if oracle_ok {
    rec.class(
        match (fam, total - 16 == fam_size(fam).unwrap_or(0), total == 16 + 65535) {
            (0, true, _) => "oracle:unspec,empty-payload",
            (0, _, true) => "oracle:unspec,payload=65535",
            (0, _, _) => "oracle:unspec,payload",
            (_, true, _) => "oracle:family,minimum-length",
            (_, _, true) => "oracle:family,payload=65535",
            _ => "oracle:family,with-tlv-bytes",
        },
        || show(&input[..input.len().min(32)], 32),
    );
    }
    let r = guard(|| match v2::Header::try_from(input) {
        Ok(h) => {
            let mut bad = check(&h, input, total, fam, "borrowed");
            if copy_owned {
                let o = h.to_owned();
                bad.extend(check(&o, input, total, fam, "owned"));
                if o != h {
                    bad.push(("owned-differs:owned".into(), "to_owned() != original".into()));
                }
                // Clone::clone_from into an existing header of another family: the target must
                // become this header in every view
                let mut slot = crate::c03::OTHER_V2.with(|x| x.clone());
                slot.clone_from(&h);
                bad.extend(check(&slot, input, total, fam, "clone_from(borrowed)"));
                let mut slot = crate::c03::OTHER_V2.with(|x| x.clone());
                slot.clone_from(&o);
                bad.extend(check(&slot, input, total, fam, "clone_from(owned)"));
                let c = h.clone();
                bad.extend(check(&c, input, total, fam, "clone"));
            }
            Some(bad)
        }
        Err(_) => None,
    });
    rec.events(if copy_owned { 100 } else { 20 });
    let report = |rec: &mut Recorder, rule: &str, d: String| {
        rec.violation(rule, enc_case("v2", &input[..(total + 4).min(input.len())]), format!("fam{}|{}", fam, if total - 16 == fam_size(fam).unwrap_or(0) { "min" } else { "more" }), format!("{} on {:?} ({} header bytes): {}", rule, show(&input[..input.len().min(32)], 32), total, d));
    };
    match r {
        Ok(Some(bad)) => {
            for (rule, d) in bad {
                report(rec, &rule, d);
            }
        }
        Ok(None) => rec.class("skipped:implementation-rejects-valid-header", || show(&input[..24], 24)),
        Err(m) => report(rec, "panic", m),
    }
}

impl Monitor for C14 {
    fn id(&self) -> &'static str {
        "C14"
    }
    fn rule(&self) -> &'static str {
        "cases = inputs of the v2 workload that the oracle accepts (24 valid control pairs x length ladder x presence, valid headers of every family with payloads from the family minimum to 65535; thorough: the 24 pairs x all 65536 declared lengths); on each accepted header, borrowed and owned, the identities address_bytes++tlv_bytes = payload, view sizes, length/len/as_bytes/length-field agreement, is_empty, family = wire nibble = family of the decoded value, Addresses::len/is_empty/u16::from(family), decoded fields = big-endian reading, tlvs().as_bytes() are checked against the raw input; non-trivial = oracle-accepted header; distinct = distinct headers"
    }
    fn streams(&self, tier: Tier) -> Vec<StreamSpec> {
        let mut s = vec![
            stream("v2-valid", tier.n(60, 400_000, 40_000_000)),
            stream("v2-ctl-s", tier.n(60, 3_000_000, 100_000_000)),
            stream("v2-mix", tier.n(10, 20_000, 1_000_000)),
        ];
        if tier != Tier::Miri {
            s.push(exhaustive("c14-ladder", 24 * 17 * 3));
            s.push(exhaustive("v2-collide", 2 * spec::collide::v2_pairs().len() as u64));
            s.push(exhaustive("v2-dense", spec::v2::dense_count()));
            s.push(exhaustive("v2-sweep", spec::v2::sweep_count()));
        }
        if tier == Tier::Thorough {
            s.push(exhaustive("c14-all-lengths", 24 * 65536));
        }
        s
    }
    fn run_case(&self, stream: &str, idx: u64, seed: u64, rec: &mut Recorder) {
        match stream {
            "c14-all-lengths" => {
                let (vc, fp) = valid_ctl(idx >> 16);
                with_big(vc, fp, idx as u16, |input| judge(input, rec, mix(idx), idx % 64 == 0 || (idx as u16) < 512));
            }
            "c14-ladder" => {
                let (vc, fp) = valid_ctl(idx % 24);
                let len = spec::v2::LEN_LADDER[((idx / 24) % 17) as usize];
                let extra = [0usize, 1, 5][((idx / (24 * 17)) % 3) as usize];
                with_big(vc, fp, len, |input| {
                    let n = (16 + len as usize + extra).min(input.len());
                    judge(&input[..n], rec, mix(idx ^ 0x1ADD), true)
                });
            }
            "v2-ctl-s" => {
                // sample of the control x ladder space restricted to valid control pairs (the
                // rest is rejected and not C14's subject)
                let mut rng = spec::rng::Rng::for_case(seed, 14, idx);
                let (vc, fp) = valid_ctl(rng.below(24));
                let len = if rng.coin() { *rng.pick(&spec::v2::LEN_LADDER) } else { rng.u16() };
                with_big(vc, fp, len, |input| {
                    let n = (16 + len as usize + rng.below(3) as usize).min(input.len());
                    judge(&input[..n], rec, mix((vc as u64) << 40 | (fp as u64) << 32 | (len as u64) << 8 | (n & 3) as u64), len < 2048)
                });
            }
            _ => SCRATCH.with(|b| {
                let mut b = b.borrow_mut();
                v2_case(stream, idx, seed, &mut b);
                let h = hash_bytes(&b[..b.len().min(4096)]) ^ b.len() as u64;
                let small = b.len() < 8192 || idx % 16 == 0;
                if stream == "v2-dense" {
                    spec::engine::placed(&b, idx / 3, |x| judge(x, rec, h, small));
                } else {
                    spec::sib::run_v2(&b, idx, 4, |x| judge(x, rec, if x == &b[..] { h } else { hash_bytes(x) }, small));
                }
            }),
        }
    }
    fn floor(&self, tier: Tier) -> Vec<&'static str> {
        if tier == Tier::Miri {
            return vec!["oracle:family,with-tlv-bytes"];
        }
        vec![
            "oracle:unspec,empty-payload",
            "oracle:unspec,payload=65535",
            "oracle:unspec,payload",
            "oracle:family,minimum-length",
            "oracle:family,payload=65535",
            "oracle:family,with-tlv-bytes",
        ]
    }
    fn replay(&self, case: &str, rec: &mut Recorder) {
        if let Some((_, bytes)) = dec_case(case) {
            judge(&bytes, rec, 0, true);
        }
    }
}
