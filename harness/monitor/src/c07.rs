//! C07 — v2 builder emits the specified wire format and its output parses back unchanged.
//! Differential vs the reference encoder, then a round trip through the real parser.

use crate::adapt::*;
use crate::hist::{to_addresses, Exec};
use ppp::v2;
use spec::build::*;
use spec::engine::{exhaustive, stream, stream_id, Monitor, StreamSpec, Tier};
use spec::json::show;
use spec::record::Recorder;
use spec::rng::{hash_bytes, Rng};
use spec::v2::{tlv_ref, TlvEnd, SIG};

pub struct C07;

/// The header description a case is generated from.
struct Spec {
    cmd: u8,
    tr: u8,
    addr: Addr,
    /// (type byte, named type index if written through the enum, value)
    tlvs: Vec<(u8, Option<usize>, Blob)>,
}

/// Reference wire encoding written out directly from the protocol text.
fn encode_header(s: &Spec) -> Vec<u8> {
    let mut out = SIG.to_vec();
    out.push(0x20 | s.cmd);
    out.push((s.addr.fam() << 4) | s.tr);
    out.extend_from_slice(&[0, 0]);
    out.extend_from_slice(&s.addr.encode());
    for (k, _, b) in &s.tlvs {
        out.push(*k);
        out.push((b.len >> 8) as u8);
        out.push(b.len as u8);
        out.extend_from_slice(&b.bytes());
    }
    let l = out.len() - 16;
    out[14] = (l >> 8) as u8;
    out[15] = l as u8;
    out
}

fn gen_spec(stream_name: &str, idx: u64, rng: &mut Rng) -> Spec {
    // every (command, transport, family) combination is visited by consecutive indices
    let combo = idx % 24;
    let cmd = (combo % 2) as u8;
    let tr = ((combo / 2) % 3) as u8;
    let fam = (combo / 6) as u8;
    let addr = Addr::random(rng, fam);
    let base = addr.encode().len();
    let room = MAX_PAYLOAD - base;
    let mut tlvs = Vec::new();
    let named = |rng: &mut Rng| -> (u8, Option<usize>) {
        if rng.coin() {
            let t = rng.below(12) as usize;
            (TYPE_CODES[t].1, Some(t))
        } else {
            (rng.u8(), None)
        }
    };
    match stream_name {
        "c07-types" => {
            // one TLV of each type byte 0..=255 (idx / 24 walks the type bytes), plus each named type
            let k = ((idx / 24) % 268) as usize;
            // every type byte (and every named type) x lengths on both sides of the limits a single
            // type might have (UNIQUE_ID: 128 bytes)
            let l = *rng.pick(&[0usize, 1, 2, 4, 7, 127, 128, 129, 200, 255, 256, 257, 1000]);
            if k < 256 {
                tlvs.push((k as u8, None, Blob::new(rng.next() >> 16, l)));
            } else {
                tlvs.push((TYPE_CODES[k - 256].1, Some(k - 256), Blob::new(rng.next() >> 16, l)));
            }
        }
        "c07-fit" => {
            // exact fit / one more than fits / near the limit, as 1..3 TLVs
            let over = [0i64, 1, -1, 2, -2][(idx / 24 % 5) as usize];
            let target = (room as i64 + over) as usize;
            let parts = rng.range(1, 3) as usize;
            let mut left = target;
            for p in 0..parts {
                let take = if p + 1 == parts { left } else { 3 + rng.below((left - 3 * (parts - p)) as u64 + 1) as usize };
                let take = take.max(3);
                left -= take.min(left);
                let (k, n) = named(rng);
                tlvs.push((k, n, Blob::new(rng.next() >> 16, take - 3)));
            }
        }
        "c07-flood" => {
            // thousands of empty TLVs: counts around 1024 / 4096 / 16384 and the maximum that fits
            let max = room / 3;
            let n = [1023usize, 1024, 1025, 4095, 4096, 4097, 16383, 16384, 16385, max - 1, max, 8192][(idx / 24 % 12) as usize].min(max);
            let n = if spec::engine::small() { n % 40 + 2 } else { n };
            let (k, nn) = named(rng);
            for i in 0..n {
                if i % 1000 == 7 {
                    tlvs.push((rng.u8(), None, Blob::new(0, 0)));
                } else {
                    tlvs.push((k, nn, Blob::new(0, 0)));
                }
            }
        }
        "c07-echo" => {
            // self-similar content: the first TLV encodes to exactly the bytes of the address
            // block (possible for IPv4 / IPv6: the block is chosen so that it reads as a TLV),
            // the same TLV two or three times in a row, a TLV whose value is a header image
            let k = rng.u8();
            let mut first: Option<(u8, Blob)> = None;
            let addr2 = match fam {
                1 | 2 => {
                    let n = if fam == 1 { 12usize } else { 36 };
                    // find a blob whose bytes we can use as the value (n - 3 bytes)
                    let blob = Blob::new((rng.next() >> 16) | 2, n - 3);
                    let mut blk = vec![k, 0, (n - 3) as u8];
                    blk.extend_from_slice(&blob.bytes());
                    first = Some((k, blob));
                    if fam == 1 {
                        Addr::V4 { src: blk[0..4].try_into().unwrap(), dst: blk[4..8].try_into().unwrap(), sp: u16::from_be_bytes([blk[8], blk[9]]), dp: u16::from_be_bytes([blk[10], blk[11]]) }
                    } else {
                        Addr::V6 { src: blk[0..16].try_into().unwrap(), dst: blk[16..32].try_into().unwrap(), sp: u16::from_be_bytes([blk[32], blk[33]]), dp: u16::from_be_bytes([blk[34], blk[35]]) }
                    }
                }
                _ => addr.clone(),
            };
            if let Some((k, b)) = first {
                if rng.chance(3, 4) {
                    tlvs.push((k, None, b));
                }
            }
            let (k2, n2) = named(rng);
            let b2 = Blob::new(((rng.next() >> 16) << 4) | 3, 16 + rng.below(30) as usize);
            for _ in 0..rng.range(1, 3) {
                tlvs.push((k2, n2, b2.clone()));
            }
            return Spec { cmd, tr, addr: addr2, tlvs };
        }
        "c07-many" => {
            let n = rng.range(1, 40);
            for _ in 0..n {
                let (k, nn) = named(rng);
                tlvs.push((k, nn, Blob::new(rng.next() >> 16, rng.below(12) as usize)));
            }
        }
        _ => {
            let n = rng.below(5);
            for _ in 0..n {
                let (k, nn) = named(rng);
                let l = match rng.below(12) {
                    0 => 4096,
                    1 => 256,
                    2 => 255,
                    3 => 257,
                    4 | 5 => 4,
                    _ => rng.below(20) as usize,
                };
                let seed = match rng.below(6) {
                    0 => 0,
                    1 => 1,
                    _ => (rng.next() >> 16) | 2,
                };
                tlvs.push((k, nn, Blob::new(seed, l)));
            }
        }
    }
    Spec { cmd, tr, addr, tlvs }
}

/// The call histories that must all produce `encode_header(spec)`.
fn histories(s: &Spec) -> Vec<(&'static str, History)> {
    let vc = 0x20 | s.cmd;
    let fp = (s.addr.fam() << 4) | s.tr;
    let mut a = Vec::new();
    let mut b = vec![Op::Write(Val::Addr(s.addr.clone()))];
    let mut c = vec![Op::Write(Val::Addr(s.addr.clone()))];
    let mut batch = Vec::new();
    for (k, named, blob) in &s.tlvs {
        match named {
            Some(t) => {
                a.push(Op::WriteTlvType(*t, blob.clone()));
                b.push(Op::Write(Val::TlvTupleType(*t, blob.clone())));
                batch.push(Val::TlvTupleType(*t, blob.clone()));
            }
            None => {
                a.push(Op::WriteTlv(*k, blob.clone()));
                b.push(Op::Write(Val::TlvTuple(*k, blob.clone())));
                batch.push(Val::TlvStruct(*k, blob.clone()));
            }
        }
    }
    c.push(Op::Batch(batch));
    // the same content with calls around it that add nothing: an explicit length set before the
    // first write and cleared again after an empty batch, capacity reservations, empty writes
    let mut d = vec![Op::SetLength(Some(7 + s.tlvs.len() as u16)), Op::Batch(vec![]), Op::SetLength(None), Op::Reserve(64)];
    d.extend(a.iter().cloned());
    d.push(Op::Write(Val::Bytes(Blob::new(0, 0))));
    let mut e = vec![Op::SetLength(Some(0)), Op::Write(Val::Addr(s.addr.clone())), Op::SetLength(None)];
    e.extend(a.iter().cloned());
    let extra = if s.tlvs.iter().map(|t| t.2.len).sum::<usize>() < 6000 {
        vec![
            ("with_addresses+length-set-and-cleared+write_tlv", History { ctor: Ctor::WithAddr(vc, s.tr, s.addr.clone()), ops: d }),
            ("new+length-set-and-cleared+write_tlv", History { ctor: Ctor::New(vc, fp), ops: e }),
        ]
    } else {
        vec![]
    };
    // the TLV list handed over piecewise in ONE batch: type byte, length, value as separate items
    // (how the crate's own nested-TLV test builds them) - many more items than TLVs
    let mut pieces = vec![Val::Addr(s.addr.clone())];
    for (k, _, blob) in &s.tlvs {
        pieces.push(Val::U8(*k));
        pieces.push(Val::U16(blob.len as u16));
        pieces.push(Val::Bytes(blob.clone()));
    }
    let mut extra = extra;
    if s.tlvs.iter().all(|t| t.2.len <= MAX_PAYLOAD) && (s.tlvs.len() > 7000 || s.tlvs.len() % 4 == 1) {
        extra.push(("new+one-batch-of-pieces", History { ctor: Ctor::New(vc, fp), ops: vec![Op::Batch(pieces)] }));
    }
    let mut all = vec![
        ("with_addresses+write_tlv", History { ctor: Ctor::WithAddr(vc, s.tr, s.addr.clone()), ops: a }),
        ("new+write_payload(addresses)+tuples", History { ctor: Ctor::New(vc, fp), ops: b }),
        ("new+write_payload(addresses)+write_payloads", History { ctor: Ctor::New(vc, fp), ops: c }),
    ];
    all.extend(extra);
    all
}

fn judge(s: &Spec, idx: u64, rec: &mut Recorder) {
    let want = encode_header(s);
    let payload = want.len() - 16;
    let fits = payload <= MAX_PAYLOAD;
    let desc = format!(
        "cmd={} tr={} addr={} tlvs=[{}]",
        s.cmd,
        s.tr,
        s.addr.text().chars().take(90).collect::<String>(),
        s.tlvs.iter().take(6).map(|(k, n, b)| format!("{:#04x}{}:{}", k, if n.is_some() { "(named)" } else { "" }, b.len)).collect::<Vec<_>>().join(",")
    );
    rec.case(hash_bytes(&want[..want.len().min(4096)]) ^ want.len() as u64, !s.tlvs.is_empty() || s.addr.fam() != 0);
    rec.class(
        &format!(
            "oracle:fam{}|{}",
            s.addr.fam(),
            if !fits {
                "payload>65535"
            } else if payload == MAX_PAYLOAD {
                "payload=65535"
            } else if s.tlvs.is_empty() {
                "no-tlv"
            } else {
                "with-tlvs"
            }
        ),
        || desc.clone(),
    );
    for (_, n, _) in &s.tlvs {
        if let Some(t) = n {
            rec.class(&format!("oracle:named-type-{}", TYPE_CODES[*t].0), || desc.clone());
        }
    }
    for (name, h) in histories(s) {
        let out = crate::hist::exec_plain(&h, idx);
        rec.events(h.ops.len() as u64 + 2);
        let viol = |rec: &mut Recorder, rule: &str, detail: String| {
            rec.violation(&format!("{}:{}", rule, name), format!("hist:{}", h.text()), h.skeleton(), format!("{} via {}: {} | {}", rule, name, detail, desc));
        };
        match out {
            Exec::Panic(m) => viol(rec, "panic", m),
            Exec::FailedAt(i, e) => {
                if fits {
                    viol(rec, "build-failed", format!("encoding fits ({} payload bytes) but call #{} failed with {}", payload, i, e));
                } else {
                    rec.class("refused:payload>65535", || desc.clone());
                }
            }
            Exec::Built(bytes) => {
                if !fits {
                    viol(rec, "overlong-built", format!("{} payload bytes do not fit a 16-bit length, build succeeded (length field {:?})", payload, &bytes[14..16]));
                    continue;
                }
                if bytes != want {
                    let at = bytes.iter().zip(&want).position(|(a, b)| a != b);
                    viol(rec, "wire-format", format!("built {} bytes, reference encoding has {}; first difference at {:?}; got {} want {}", bytes.len(), want.len(), at, show(&bytes[..bytes.len().min(40)], 40), show(&want[..want.len().min(40)], 40)));
                    continue;
                }
                rec.class(&format!("built-identical|{}", name), || desc.clone());
                // round trip through the real parser
                let r = guard(|| {
                    let hd = match v2::Header::try_from(bytes.as_slice()) {
                        Ok(h) => h,
                        Err(e) => return Err(format!("parser rejects the built header: {:?}", e)),
                    };
                    if hd.header.as_ref() != bytes.as_slice() {
                        return Err(format!("parsed header bytes differ from the built ones ({} vs {})", hd.header.len(), bytes.len()));
                    }
                    if cmd_code(hd.command) != s.cmd || tr_code(hd.protocol) != s.tr {
                        return Err(format!("parsed command/transport {:?}/{:?}", hd.command, hd.protocol));
                    }
                    if hd.addresses != to_addresses(&s.addr) {
                        return Err(format!("parsed addresses {:?}", hd.addresses));
                    }
                    if s.addr.fam() != 0 {
                        let mut n = 0usize;
                        for (i, item) in hd.tlvs().enumerate() {
                            if i > s.tlvs.len() {
                                break;
                            }
                            match item {
                                Ok(t) => match s.tlvs.get(i) {
                                    Some((k, _, b)) if t.kind == *k && t.value.as_ref() == b.bytes().as_slice() => n += 1,
                                    other => return Err(format!("TLV #{} parsed as kind {:#x} len {}, written {:?}", i, t.kind, t.value.len(), other.map(|(k, _, b)| (*k, b.len)))),
                                },
                                Err(e) => return Err(format!("TLV #{} parsed as error {:?}", i, e)),
                            }
                        }
                        if n != s.tlvs.len() {
                            return Err(format!("{} TLVs parsed back, {} written", n, s.tlvs.len()));
                        }
                        // "the same TLV sequence in the same order", however the reader consumes
                        // it: the first k items with next(), the rest through count / last /
                        // collect; and handed on to the next hop: the header built from the parsed
                        // parts (the section given as the TypeLengthValues value the reader holds,
                        // which stands for the whole section wherever its cursor is) is the same
                        // wire encoding again
                        if s.tlvs.len() <= 64 {
                            let total = s.tlvs.len();
                            for k in [0usize, 1, total / 2, total] {
                                if k > total {
                                    continue;
                                }
                                let mut it = hd.tlvs();
                                for _ in 0..k {
                                    let _ = it.next();
                                }
                                let c = it.clone().take(total + 3).count();
                                if c != total - k {
                                    return Err(format!("after {} next() calls count() says {} of {} TLVs are left", k, c, total));
                                }
                                match (it.clone().take(total + 3).last(), s.tlvs.last()) {
                                    (None, _) if k == total => {}
                                    (Some(Ok(t)), Some((kind, _, b))) if k < total && t.kind == *kind && t.value.as_ref() == b.bytes().as_slice() => {}
                                    (other, _) => return Err(format!("after {} next() calls last() gives {:?}", k, other.map(|r| r.map(|t| (t.kind, t.value.len())).map_err(|e| format!("{:?}", e))))),
                                }
                                let rest: Vec<(u8, usize)> = it.clone().take(total + 3).filter_map(|r| r.ok()).map(|t| (t.kind, t.value.len())).collect();
                                let want_rest: Vec<(u8, usize)> = s.tlvs[k..].iter().map(|(kind, _, b)| (*kind, b.len)).collect();
                                if rest != want_rest {
                                    return Err(format!("after {} next() calls the rest of the sequence is {:?}, written {:?}", k, &rest[..rest.len().min(6)], &want_rest[..want_rest.len().min(6)]));
                                }
                                let again = v2::Builder::with_addresses(hd.version | hd.command, hd.protocol, hd.addresses).write_payload(it).and_then(|b| b.build());
                                match again {
                                    Ok(b2) if b2 == bytes => {}
                                    Ok(b2) => return Err(format!("rebuilt from the parsed parts (TLV iterator advanced {} times) the header has {} bytes, length field {:?}; the original has {}", k, b2.len(), &b2[14..16], bytes.len())),
                                    Err(e) => return Err(format!("rebuilding from the parsed parts fails: {:?}", e.kind())),
                                }
                            }
                        }
                    }
                    Ok(())
                });
                rec.events(2 + s.tlvs.len() as u64);
                match r {
                    Ok(Ok(())) => rec.class("round-trip-identical", || desc.clone()),
                    Ok(Err(d)) => viol(rec, "round-trip", d),
                    Err(m) => viol(rec, "panic", m),
                }
                // sanity of the oracle itself: the reference walk over the reference bytes
                let fam_len = s.addr.encode().len();
                let (items, end) = tlv_ref(&want[16 + fam_len..]);
                debug_assert!(end == TlvEnd::Clean && items.len() == s.tlvs.len());
                let _ = (items, end);
            }
        }
    }
}

impl Monitor for C07 {
    fn id(&self) -> &'static str {
        "C07"
    }
    fn rule(&self) -> &'static str {
        "cases = header descriptions (command x transport x family visited exhaustively by consecutive indices, random address values with distinct source/destination, TLV lists: none; one TLV of each of the 256 type bytes and of each of the 12 named types; value lengths 0,1,2,7,255,256,257,4096; 1-40 small TLVs; lists whose total is exactly 65535, one or two less, one or two more); each is built three ways (with_addresses + write_tlv; new + write_payload(addresses) + tuples; new + write_payloads batch), control bytes formed through the four BitOr impls, compared byte for byte with a reference encoder, then parsed back and compared (command, transport, addresses, bytes, TLV sequence); non-trivial = has an address block or a TLV; distinct = distinct reference encodings"
    }
    fn streams(&self, tier: Tier) -> Vec<StreamSpec> {
        vec![
            stream("c07-rand", tier.n(48, 600_000, 20_000_000)),
            exhaustive("c07-types", if tier == Tier::Miri { 48 } else { 24 * 268 * 4 }),
            stream("c07-fit", tier.n(0, 24 * 5 * 4, 24 * 5 * 400)),
            stream("c07-many", tier.n(24, 150_000, 5_000_000)),
            stream("c07-flood", tier.n(2, 24 * 12, 24 * 12 * 20)),
            stream("c07-echo", tier.n(24, 24_000, 1_000_000)),
        ]
    }
    fn run_case(&self, stream: &str, idx: u64, seed: u64, rec: &mut Recorder) {
        let mut rng = Rng::for_case(seed, stream_id(stream), idx);
        let s = gen_spec(stream, idx, &mut rng);
        judge(&s, idx, rec);
    }
    fn floor(&self, tier: Tier) -> Vec<&'static str> {
        if tier == Tier::Miri {
            return vec!["oracle:fam1|with-tlvs"];
        }
        vec![
            "oracle:fam0|with-tlvs",
            "oracle:fam1|with-tlvs",
            "oracle:fam2|with-tlvs",
            "oracle:fam3|with-tlvs",
            "oracle:fam1|payload=65535",
            "oracle:fam3|payload=65535",
            "oracle:fam2|payload>65535",
            "oracle:named-type-UniqueId",
            "oracle:named-type-SSLKeyAlgorithm",
            "oracle:named-type-NetworkNamespace",
        ]
    }
    fn replay(&self, case: &str, rec: &mut Recorder) {
        // a C07 replay re-executes the failing history against the model and the parser
        if let Some(h) = case.strip_prefix("hist:").and_then(History::parse) {
            let mut m = Model::new(&h.ctor);
            let mut ok = true;
            for op in &h.ops {
                ok &= m.apply(op) != Step::MustFail;
            }
            for variant in 0..4 {
                let out = crate::hist::exec_plain(&h, variant);
                rec.events(h.ops.len() as u64 + 2);
                let fits = ok && m.payload_len() <= MAX_PAYLOAD;
                match (&out, m.build()) {
                    (Exec::Built(b), BuildExpect::Bytes(w)) if fits => {
                        if *b != w {
                            rec.violation("wire-format", case.to_string(), h.skeleton(), "built bytes differ from the reference encoding".into());
                        } else if v2::Header::try_from(b.as_slice()).map(|p| p.header.as_ref() != b.as_slice()).unwrap_or(true) {
                            rec.violation("round-trip", case.to_string(), h.skeleton(), "built header does not parse back to itself".into());
                        }
                    }
                    (Exec::Built(_), _) => rec.violation("overlong-built", case.to_string(), h.skeleton(), "build succeeded although the payload does not fit".into()),
                    (Exec::FailedAt(i, e), _) if fits => rec.violation("build-failed", case.to_string(), h.skeleton(), format!("call #{} failed: {}", i, e)),
                    (Exec::Panic(m), _) => rec.violation("panic", case.to_string(), h.skeleton(), m.clone()),
                    _ => {}
                }
            }
        }
    }
    fn assumptions(&self) -> Vec<&'static str> {
        vec!["the registered TLV type codes are those of the HAProxy PROXY protocol document section 2.2.x, hard-coded in spec::build::TYPE_CODES"]
    }
}
