//! C20 — every encodable value appends exactly its wire encoding and reports its size.
//! Differential vs the reference encoders, with the `Writer` used on its own.

use crate::adapt::*;
use crate::hist::{blob_bytes, to_addresses, TYPES};
use ppp::v2::{self, WriteToHeader, Writer};
use spec::build::*;
use spec::engine::{exhaustive, stream, stream_id, Monitor, StreamSpec, Tier};
use spec::record::Recorder;
use spec::rng::{hash_bytes, Rng};

pub struct C20;

/// What one write produced: Ok(returned count, writer contents) or Err(kind, writer contents).
type W = Result<(usize, Vec<u8>), (String, Vec<u8>)>;

fn write_with<T: WriteToHeader + ?Sized>(x: &T, prefill: &[u8], follow: bool) -> (W, W, W, Result<Vec<u8>, String>) {
    let one = |f: &dyn Fn(&mut Writer) -> std::io::Result<usize>| -> W {
        let mut w = Writer::from(prefill.to_vec());
        match f(&mut w) {
            Ok(n) => Ok((n, w.finish())),
            Err(e) if !follow => Err((format!("{:?}", e.kind()), w.finish())),
            Err(e) => {
                // a refusal writes nothing and leaves the writer usable: one more byte goes in
                // (the marker 0x5A is expected after the prefill by the judge)
                let follow = 0x5Au8.write_to(&mut w);
                let mut out = w.finish();
                if follow.is_err() {
                    out.extend_from_slice(b"<the writer refused a one-byte value after the refusal>");
                }
                Err((format!("{:?}", e.kind()), out))
            }
        }
    };
    let a = one(&|w| x.write_to(w));
    let b = one(&|w| (&x).write_to(w));
    let c = one(&|w| (&&x).write_to(w));
    let d = x.to_bytes().map_err(|e| format!("{:?}", e.kind()));
    (a, b, c, d)
}

fn run_val(v: &Val, prefill: &[u8], follow: bool) -> (W, W, W, Result<Vec<u8>, String>) {
    let bytes = blob_bytes(v);
    match v {
        Val::U8(x) => write_with(x, prefill, follow),
        Val::U16(x) => write_with(x, prefill, follow),
        Val::U32(x) => write_with(x, prefill, follow),
        Val::U64(x) => write_with(x, prefill, follow),
        Val::U128(x) => write_with(x, prefill, follow),
        Val::Usize(x) => write_with(x, prefill, follow),
        Val::I8(x) => write_with(x, prefill, follow),
        Val::I16(x) => write_with(x, prefill, follow),
        Val::I32(x) => write_with(x, prefill, follow),
        Val::I64(x) => write_with(x, prefill, follow),
        Val::I128(x) => write_with(x, prefill, follow),
        Val::Isize(x) => write_with(x, prefill, follow),
        Val::Bytes(_) => write_with(bytes.as_slice(), prefill, follow),
        Val::Addr(a) => write_with(&to_addresses(a), prefill, follow),
        Val::TlvStruct(k, _) => write_with(&v2::TypeLengthValue::new(*k, bytes.as_slice()), prefill, follow),
        Val::TlvOwned(k, _) => write_with(&v2::TypeLengthValue::new(*k, bytes.as_slice()).to_owned(), prefill, follow),
        Val::TlvTuple(k, _) => write_with(&(*k, bytes.as_slice()), prefill, follow),
        Val::TlvTupleType(t, _) => write_with(&(TYPES[*t], bytes.as_slice()), prefill, follow),
        Val::Section(_) => write_with(&v2::TypeLengthValues::from(bytes.as_slice()), prefill, follow),
        Val::SectionAdv(_, k) => write_with(&crate::hist::advanced(bytes.as_slice(), *k), prefill, follow),
        Val::Type(t) => write_with(&TYPES[*t], prefill, follow),
        // caller-defined impls are not C20's subject (the generator below never produces them)
        Val::Custom(..) => write_with(bytes.as_slice(), prefill, follow),
    }
}

/// The byte payload held in a fixed-size array (`[u8; N]`, `Box<[u8; N]>`, `&[u8; N]`) and written
/// with method-call syntax - caller code that compiles against the crate as it is (the array
/// unsizes to a slice) and must keep meaning the same thing.
fn array_receivers<const N: usize>(fill: u8, prefill: &[u8], rec: &mut Recorder) {
    let case = format!("array:{}x{}|{}", fill, N, prefill.len());
    rec.case(hash_bytes(case.as_bytes()), true);
    rec.class(if N > 65535 { "oracle:array|must-be-refused" } else { "oracle:array|encodable" }, || case.clone());
    let r = guard(|| {
        let boxed: Box<[u8; N]> = vec![fill; N].into_boxed_slice().try_into().expect("length N");
        let mut outs: Vec<(&'static str, Result<(usize, Vec<u8>), Vec<u8>>)> = Vec::new();
        let mut one = |name: &'static str, f: &dyn Fn(&mut Writer) -> std::io::Result<usize>| {
            let mut w = Writer::from(prefill.to_vec());
            let r = f(&mut w);
            let out = w.finish();
            outs.push((name, match r {
                Ok(n) => Ok((n, out)),
                Err(_) => Err(out),
            }));
        };
        one("Box<[u8; N]>.write_to", &|w| boxed.write_to(w));
        one("(*box).write_to", &|w| (*boxed).write_to(w));
        let r: &[u8; N] = &boxed;
        one("&[u8; N].write_to", &|w| r.write_to(w));
        one("(&&[u8; N]).write_to", &|w| (&r).write_to(w));
        let tb = boxed.to_bytes().map_err(|_| ());
        (outs, tb)
    });
    rec.events(5);
    let viol = |rec: &mut Recorder, rule: &str, d: String| {
        rec.violation(&format!("{}:array", rule), case.clone(), format!("array|{}", if N > 65535 { "oversized" } else { "encodable" }), format!("{} for a [u8; {}] written into a writer holding {} bytes: {}", rule, N, prefill.len(), d));
    };
    match r {
        Err(m) => viol(rec, "panic", m),
        Ok((outs, tb)) => {
            for (name, o) in outs {
                match (o, N > 65535) {
                    (Ok((n, out)), false) => {
                        if n != N || out.len() != prefill.len() + N || out[..prefill.len()] != prefill[..] || out[prefill.len()..].iter().any(|&b| b != fill) {
                            viol(rec, "appended-bytes", format!("{} returned {} and left {} bytes in the writer", name, n, out.len()));
                        }
                    }
                    (Err(_), false) => viol(rec, "refused-encodable", format!("{} failed although the writer is below its limit", name)),
                    (Ok((n, out)), true) => viol(rec, "oversized-accepted", format!("{} accepted {} bytes (returned {}, writer now {} bytes)", name, N, n, out.len())),
                    (Err(out), true) => {
                        if out != prefill {
                            viol(rec, "refused-but-wrote", format!("{} refused the value but the writer went from {} to {} bytes", name, prefill.len(), out.len()));
                        }
                    }
                }
            }
            match (tb, N > 65535) {
                (Ok(t), false) if t.len() == N && t.iter().all(|&b| b == fill) => {}
                (Err(()), true) => {}
                (other, _) => viol(rec, "to_bytes", format!("to_bytes() on the array gives {:?}", other.map(|t| t.len()))),
            }
        }
    }
}

/// The last bytes before the writer's limit. A `Writer` refuses once it holds more than 16 + 65535
/// bytes; one that holds at most that many is below its limit, but a value written into it may
/// carry it across. Only what the statement fixes in every reading is demanded there: a call that
/// reports success must have appended exactly the encoding and returned its size; a call that
/// reports failure must not have appended the complete encoding (it would have "appended exactly
/// that value's wire encoding" and denied it), and whatever it did append must be a prefix of it.
fn judge_edge(v: &Val, pre_len: usize, rec: &mut Recorder) {
    let pre = Blob::new(pre_len as u64 * 31 + 7, pre_len);
    let case = format!("edge:{}|{}", v.text(), pre.text());
    rec.case(hash_bytes(case.as_bytes()), true);
    let prefill = pre.bytes();
    let enc = match v.encode() {
        Ok(e) => e,
        Err(()) => return,
    };
    rec.class(&format!("oracle:edge|{}|{}", v.kind(), if pre_len + enc.len() > WRITER_LIMIT { "crosses-the-limit" } else if pre_len + enc.len() > MAX_PAYLOAD { "ends-in-the-last-16-bytes" } else { "stays-below" }), || case.clone());
    let r = guard(|| run_val(v, &prefill, false));
    rec.events(3);
    let viol = |rec: &mut Recorder, rule: &str, d: String| {
        rec.violation(&format!("{}:{}", rule, v.kind()), case.clone(), format!("edge|{}", v.kind()), format!("{} for {} ({} encoded bytes) into a writer holding {} bytes (it refuses once it holds more than {}): {}", rule, v.text().chars().take(80).collect::<String>(), enc.len(), prefill.len(), WRITER_LIMIT, d));
    };
    let (a, b, c, _) = match r {
        Ok(x) => x,
        Err(m) => {
            viol(rec, "panic", m);
            return;
        }
    };
    for (how, w) in [("x", &a), ("&x", &b), ("&&x", &c)] {
        match w {
            Ok((n, out)) => {
                if *n != enc.len() {
                    viol(rec, "edge-returned-count", format!("write_to on {} returned Ok({}), the encoding has {} bytes", how, n, enc.len()));
                }
                if out.len() != prefill.len() + enc.len() || out[..prefill.len()] != prefill[..] || out[prefill.len()..] != enc[..] {
                    viol(rec, "edge-appended-bytes", format!("write_to on {} returned Ok({}) but the writer holds {} bytes, not its {} earlier bytes followed by the {} encoded ones", how, n, out.len(), prefill.len(), enc.len()));
                }
            }
            Err((k, out)) => {
                if out.len() < prefill.len() || out[..prefill.len()] != prefill[..] {
                    viol(rec, "edge-failure-damaged-contents", format!("write_to on {} failed with {} and the writer's {} earlier bytes are no longer what they were ({} bytes now)", how, k, prefill.len(), out.len()));
                } else if !enc.starts_with(&out[prefill.len()..]) {
                    viol(rec, "edge-failure-appended-other-bytes", format!("write_to on {} failed with {} after appending {} bytes that are not a prefix of the encoding", how, k, out.len() - prefill.len()));
                } else if !enc.is_empty() && out.len() == prefill.len() + enc.len() {
                    viol(rec, "edge-failure-after-complete-append", format!("write_to on {} appended the complete encoding ({} bytes, the writer went from {} to {}) and returned Err({}) instead of Ok({})", how, enc.len(), prefill.len(), out.len(), k, enc.len()));
                }
            }
        }
    }
}

/// Several values written into ONE writer, one after the other (a caller that assembles a TLV by
/// hand writes a `Type`, a `u16` length and a byte slice): after every write the writer holds its
/// earlier contents followed by the encodings so far, and the returned count is the size of the
/// value just written. Nothing about an earlier value may change when a later one is written.
fn judge_sequence(vals: &[Val], pre: &Blob, rec: &mut Recorder) {
    let case = format!("seq:{}|{}", vals.iter().map(|v| v.text()).collect::<Vec<_>>().join(";"), pre.text());
    rec.case(hash_bytes(case.as_bytes()), true);
    let prefill = pre.bytes();
    let mut want = prefill.clone();
    let encs: Vec<Vec<u8>> = vals.iter().map(|v| v.encode().unwrap_or_default()).collect();
    if want.len() + encs.iter().map(|e| e.len()).sum::<usize>() > MAX_PAYLOAD {
        return;
    }
    rec.class(&format!("oracle:sequence-of-{}|{}", vals.len(), vals.iter().map(|v| v.kind()).collect::<Vec<_>>().join(",")), || case.clone());
    let blobs: Vec<Vec<u8>> = vals.iter().map(blob_bytes).collect();
    // the writer is only looked into at the end (there is no way to read it without consuming it,
    // and replacing it half-way would reset whatever it remembers); a mismatch is then localised
    // by running the prefixes of the sequence
    let run = |upto: usize| {
        guard(|| {
            let mut w = Writer::from(prefill.clone());
            let mut rets: Vec<Result<usize, String>> = Vec::new();
            for (v, b) in vals.iter().zip(&blobs).take(upto) {
                rets.push(crate::hist::item(v, b).write_to(&mut w).map_err(|e| format!("{:?}", e.kind())));
            }
            (rets, w.finish())
        })
    };
    rec.events(vals.len() as u64);
    let viol = |rec: &mut Recorder, rule: &str, d: String| {
        rec.violation(&format!("{}:sequence", rule), case.clone(), format!("sequence|{}", vals.iter().map(|v| v.kind()).collect::<Vec<_>>().join(",")), format!("{} for the values [{}] written one after the other into one writer holding {} bytes: {}", rule, vals.iter().map(|v| v.text().chars().take(40).collect::<String>()).collect::<Vec<_>>().join("; "), prefill.len(), d));
    };
    for e in &encs {
        want.extend_from_slice(e);
    }
    match run(vals.len()) {
        Err(m) => viol(rec, "panic", m),
        Ok((rets, out)) => {
            for (i, r) in rets.iter().enumerate() {
                match r {
                    Ok(n) if *n != encs[i].len() => {
                        viol(rec, "returned-count", format!("write #{} ({}) returned {}, its encoding has {} bytes", i + 1, vals[i].kind(), n, encs[i].len()));
                        return;
                    }
                    Err(k) => {
                        viol(rec, "refused-encodable", format!("write #{} ({}) failed with {} although the writer is below its limit", i + 1, vals[i].kind(), k));
                        return;
                    }
                    _ => {}
                }
            }
            if out != want {
                // the shortest prefix of the sequence that already goes wrong
                let mut first = vals.len();
                for k in 1..vals.len() {
                    let w: Vec<u8> = prefill.iter().copied().chain(encs[..k].iter().flatten().copied()).collect();
                    if !matches!(run(k), Ok((_, o)) if o == w) {
                        first = k;
                        break;
                    }
                }
                let at = out.iter().zip(&want).position(|(p, q)| p != q);
                viol(rec, "appended-bytes", format!("the writer ends up with {} bytes, expected its earlier contents followed by the {} encodings = {} bytes; first difference at byte {:?} (the prefill ends at {}); the first {} writes are enough to go wrong", out.len(), vals.len(), want.len(), at, prefill.len(), first));
            }
        }
    }
}

fn gen_sequence(idx: u64, rng: &mut Rng) -> (Vec<Val>, Blob) {
    let small = |rng: &mut Rng| -> Val {
        loop {
            let v = match rand_val(rng, false) {
                Val::Custom(b, _) => Val::Bytes(b),
                v => v,
            };
            if v.encode().map(|e| e.len() <= 600).unwrap_or(false) {
                return v;
            }
        }
    };
    let mut vals: Vec<Val> = Vec::new();
    match idx % 4 {
        0 => {
            // a TLV assembled by hand: type, 16-bit length (right, wrong, or signed), value
            let n = rng.below(40) as usize;
            vals.push(Val::Type(rng.below(12) as usize));
            let l = match rng.below(4) {
                0 => n as u16,
                1 => n as u16 + 1 + rng.below(300) as u16,
                2 => 0,
                _ => rng.u16(),
            };
            vals.push(if rng.coin() { Val::U16(l) } else { Val::I16(l as i16) });
            vals.push(Val::Bytes(Blob::new(rng.next() >> 16, n)));
            if rng.coin() {
                vals.push(small(rng));
            }
        }
        1 => {
            // the same with a u8 type and other integer widths in between
            vals.push(Val::U8(rng.u8()));
            vals.push(rng.pick(&[Val::U16(3), Val::U32(3), Val::U8(0), Val::U16(0xFFFF)]).clone());
            vals.push(Val::Bytes(Blob::new(rng.next() >> 16, rng.below(20) as usize)));
            vals.push(Val::Type(rng.below(12) as usize));
        }
        _ => {
            let k = 2 + rng.below(5);
            for _ in 0..k {
                vals.push(small(rng));
            }
        }
    }
    let pre = Blob::new(rng.next() >> 16, *rng.pick(&[0usize, 0, 1, 16, 300]));
    (vals, pre)
}

const EDGE_VALUES: u64 = 44;
const EDGE_FILLS: u64 = 56;

fn edge_val(i: u64, rng: &mut Rng) -> Val {
    let p: u128 = 0x0102_0304_0506_0708_090A_0B0C_0D0E_0F10;
    let lens = [0usize, 1, 2, 13];
    match i {
        0 => Val::U8(p as u8),
        1 => Val::U16(p as u16),
        2 => Val::U32(p as u32),
        3 => Val::U64(p as u64),
        4 => Val::U128(p),
        5 => Val::Usize(p as usize),
        6 => Val::I8(-2),
        7 => Val::I16(-3),
        8 => Val::I32(-4),
        9 => Val::I64(-5),
        10 => Val::I128(-6),
        11 => Val::Isize(-7),
        12..=15 => Val::Addr(Addr::random(rng, (i - 12) as u8)),
        16..=19 => Val::TlvStruct(0x20 + i as u8, Blob::new(i, lens[(i - 16) as usize])),
        20..=23 => Val::TlvTuple(0xE0 + i as u8, Blob::new(i, lens[(i - 20) as usize])),
        24..=27 => Val::TlvOwned(i as u8, Blob::new(i, lens[(i - 24) as usize])),
        28..=31 => Val::TlvTupleType((i % 12) as usize, Blob::new(i, lens[(i - 28) as usize])),
        32..=35 => Val::Bytes(Blob::new(i, [0usize, 1, 2, 17][(i - 32) as usize])),
        36..=38 => Val::Section(Blob::new(i, [0usize, 3, 7][(i - 36) as usize])),
        39 => Val::SectionAdv(Blob::new(i, 9), 1),
        40 => Val::Type(3),
        41 => Val::TlvStruct(0x04, Blob::new(i, 40)),
        42 => Val::Bytes(Blob::new(i, 300)),
        _ => Val::TlvTuple(0x05, Blob::new(i, 300)),
    }
}

fn judge(v: &Val, pre: &Blob, rec: &mut Recorder) {
    let case = format!("val:{}|{}", v.text(), pre.text());
    rec.case(hash_bytes(case.as_bytes()), true);
    let prefill = pre.bytes();
    let enc = v.encode();
    rec.class(
        &format!(
            "oracle:{}|{}|prefill{}",
            v.kind(),
            match &enc {
                Ok(e) if e.is_empty() => "empty-encoding",
                Ok(_) => "encodable",
                Err(()) => "must-be-refused",
            },
            match prefill.len() {
                0 => "=0",
                1..=16 => "<=16",
                _ => ">16",
            }
        ),
        || case.clone(),
    );
    let r = guard(|| run_val(v, &prefill, true));
    rec.events(4);
    let viol = |rec: &mut Recorder, rule: &str, d: String| {
        rec.violation(&format!("{}:{}", rule, v.kind()), case.clone(), format!("{}|{}", v.kind(), if enc.is_ok() { "encodable" } else { "oversized" }), format!("{} for {} into a writer holding {} bytes: {}", rule, v.text().chars().take(80).collect::<String>(), prefill.len(), d));
    };
    let (a, b, c, d) = match r {
        Ok(x) => x,
        Err(m) => {
            viol(rec, "panic", m);
            return;
        }
    };
    match &enc {
        Ok(e) => {
            let mut want = prefill.clone();
            want.extend_from_slice(e);
            for (how, w) in [("x", &a), ("&x", &b), ("&&x", &c)] {
                match w {
                    Ok((n, out)) => {
                        if *n != e.len() {
                            viol(rec, "returned-count", format!("write_to on {} returned {}, the encoding has {} bytes", how, n, e.len()));
                        }
                        if *out != want {
                            let at = out.iter().zip(&want).position(|(p, q)| p != q);
                            viol(rec, "appended-bytes", format!("writer holds {} bytes after write_to on {}, expected prefill ++ encoding = {} bytes; first difference at {:?}", out.len(), how, want.len(), at));
                        }
                    }
                    Err((k, _)) => viol(rec, "refused-encodable", format!("write_to on {} failed with {} although the writer is below its limit", how, k)),
                }
            }
            match &d {
                Ok(t) if t == e => {}
                Ok(t) => viol(rec, "to_bytes", format!("to_bytes() gives {} bytes, the encoding has {}", t.len(), e.len())),
                Err(k) => viol(rec, "to_bytes", format!("to_bytes() failed with {}", k)),
            }
        }
        Err(()) => {
            for (how, w) in [("x", &a), ("&x", &b), ("&&x", &c)] {
                match w {
                    Ok((n, out)) => viol(rec, "oversized-accepted", format!("write_to on {} accepted a value too large for a 16-bit length (returned {}, writer now {} bytes)", how, n, out.len())),
                    Err((_, out)) => {
                        // prefill, then the one-byte marker written after the refusal
                        if out.len() != prefill.len() + 1 || out[..prefill.len()] != prefill[..] || out[prefill.len()] != 0x5A {
                            viol(rec, "refused-but-wrote", format!("write_to on {} refused the value; afterwards the writer must hold its {} earlier bytes and accept a one-byte value, it holds {} bytes ending in {:?}", how, prefill.len(), out.len(), String::from_utf8_lossy(&out[out.len().saturating_sub(56)..])));
                        }
                    }
                }
            }
            if let Ok(t) = &d {
                viol(rec, "oversized-accepted", format!("to_bytes() accepted a value too large for a 16-bit length ({} bytes)", t.len()));
            }
        }
    }
    // a TLV and the equivalent (type, bytes) pair encode identically (real vs real)
    if let Val::TlvStruct(k, blob) = v {
        if let Ok((_, _, _, d2)) = guard(|| run_val(&Val::TlvTuple(*k, blob.clone()), &prefill, true)) {
            rec.event();
            if d != d2 {
                viol(rec, "tlv-vs-tuple", "TypeLengthValue::to_bytes differs from (type, bytes).to_bytes".into());
            }
        }
    }
}

fn gen(stream_name: &str, idx: u64, rng: &mut Rng) -> (Val, Blob) {
    let pre_len = *rng.pick(&[0usize, 0, 1, 16, 300, 60_000]);
    let v = match stream_name {
        "c20-ints" => {
            // all twelve integer types x fixed patterns (idx walks types and patterns) + random
            let pats: [u128; 8] = [0, 1, u128::MAX, 1u128 << 127, (1u128 << 127) - 1, 0xAAAA_AAAA_AAAA_AAAA_AAAA_AAAA_AAAA_AAAA, 0x0102_0304_0506_0708_090A_0B0C_0D0E_0F10, ((rng.next() as u128) << 64) | rng.next() as u128];
            let p = pats[((idx / 12) % 8) as usize];
            match idx % 12 {
                0 => Val::U8(p as u8),
                1 => Val::U16(p as u16),
                2 => Val::U32(p as u32),
                3 => Val::U64(p as u64),
                4 => Val::U128(p),
                5 => Val::Usize(p as usize),
                6 => Val::I8(p as i8),
                7 => Val::I16(p as i16),
                8 => Val::I32(p as i32),
                9 => Val::I64(p as i64),
                10 => Val::I128(p as i128),
                _ => Val::Isize(p as isize),
            }
        }
        "c20-tlv-types" => {
            // every type byte x value lengths {0,1,255,256,65535,65536}
            let k = (idx % 256) as u8;
            let l = [0usize, 1, 255, 256, 65535, 65536][((idx / 256) % 6) as usize];
            let b = Blob::new(rng.next() >> 16, l);
            match (idx / (256 * 6)) % 4 {
                0 => Val::TlvStruct(k, b),
                1 => Val::TlvTuple(k, b),
                2 => Val::TlvOwned(k, b),
                _ => Val::TlvTupleType((k % 12) as usize, b),
            }
        }
        "c20-slices" => {
            let l = [0usize, 1, 2, 65534, 65535, 65536, 65537, 70000][(idx % 8) as usize];
            let b = Blob::new(rng.next() >> 16, l);
            match (idx / 8) % 3 {
                0 => Val::Bytes(b),
                1 => Val::Section(Blob::new(b.seed, l.min(65535))),
                _ => Val::SectionAdv(Blob::new(b.seed, l.min(65535)), 1 + (idx / 24 % 3) as u8),
            }
        }
        _ => match rand_val(rng, true) {
            Val::Custom(b, _) => Val::Bytes(b),
            v => v,
        },
    };
    // keep the writer below its limit after the write: |P| <= 65535 - |enc(x)|
    let need = v.encode().map(|e| e.len()).unwrap_or(0);
    let pre_len = pre_len.min(MAX_PAYLOAD.saturating_sub(need));
    (v, Blob::new(rng.next() >> 16, pre_len))
}

impl Monitor for C20 {
    fn id(&self) -> &'static str {
        "C20"
    }
    fn rule(&self) -> &'static str {
        "cases = (value, prefill) pairs: all twelve integer types at 0, 1, all-ones, sign-bit, max-positive, alternating-bit, byte-counting and random patterns; address blocks of each family; TLV structs / (u8, bytes) / (Type, bytes) pairs with every type byte and value lengths 0, 1, 255, 256, 65535, 65536; byte slices of 0, 1, 2, 65534, 65535, 65536, 65537, 70000 bytes; TLV sections; the twelve named types; written with write_to through x, &x and &&x into a Writer pre-filled with 0, 1, 16, 300 or 60000 bytes (capped so the writer stays below its limit) and through to_bytes(); returned count, writer contents and to_bytes are compared with the reference encoder, oversized values must be refused leaving the writer unchanged; every case is non-trivial; distinct = distinct (value, prefill) pairs"
    }
    fn streams(&self, tier: Tier) -> Vec<StreamSpec> {
        vec![
            exhaustive("c20-ints", 12 * 8 * tier.n(1, 4, 40)),
            exhaustive("c20-tlv-types", if tier == Tier::Miri { 64 } else { 256 * 6 * 4 }),
            exhaustive("c20-slices", if tier == Tier::Miri { 6 } else { 72 * tier.n(1, 1, 10) }),
            stream("c20-rand", tier.n(60, 300_000, 30_000_000)),
            exhaustive("calling-context", 2),
            exhaustive("c20-arrays", if tier == Tier::Miri { 2 } else { 14 }),
            exhaustive("c20-edge", if tier == Tier::Miri { 0 } else { EDGE_VALUES * EDGE_FILLS }),
            stream("c20-seq", tier.n(20, 200_000, 20_000_000)),
        ]
    }
    fn run_case(&self, stream: &str, idx: u64, seed: u64, rec: &mut Recorder) {
        if stream == "calling-context" {
            if !spec::engine::layer().starts_with("miri") {
                crate::adapt::judge_context(&["C20"], rec);
            }
            return;
        }
        if stream == "c20-arrays" {
            let pre = Blob::new(idx + 2, [0usize, 1, 16, 300][(idx % 4) as usize]).bytes();
            match idx % 7 {
                0 => array_receivers::<0>(0x11, &pre, rec),
                1 => array_receivers::<3>(0x22, &pre, rec),
                2 => array_receivers::<300>(0x33, &pre, rec),
                3 => array_receivers::<65535>(0x44, &pre[..pre.len().min(1)], rec),
                4 => array_receivers::<65536>(0x55, &pre, rec),
                5 => array_receivers::<65537>(0x66, &pre, rec),
                _ => array_receivers::<70000>(0x77, &pre, rec),
            }
            return;
        }
        let mut rng = Rng::for_case(seed, stream_id(stream), idx);
        if stream == "c20-seq" {
            let (vals, pre) = gen_sequence(idx, &mut rng);
            judge_sequence(&vals, &pre, rec);
            return;
        }
        if stream == "c20-edge" {
            // writers holding 65496 ..= 65551 bytes x small values of every kind
            let v = edge_val(idx % EDGE_VALUES, &mut rng);
            judge_edge(&v, WRITER_LIMIT - (idx / EDGE_VALUES % EDGE_FILLS) as usize, rec);
            return;
        }
        let (v, pre) = gen(stream, idx, &mut rng);
        judge(&v, &pre, rec);
    }
    fn floor(&self, tier: Tier) -> Vec<&'static str> {
        if tier == Tier::Miri {
            return vec!["oracle:u8|encodable|prefill=0"];
        }
        vec![
            "oracle:u128|encodable|prefill=0",
            "oracle:i128|encodable|prefill>16",
            "oracle:isize|encodable|prefill<=16",
            "oracle:tlv|must-be-refused|prefill=0",
            "oracle:tuple|must-be-refused|prefill=0",
            "oracle:bytes|must-be-refused|prefill=0",
            "oracle:bytes|encodable|prefill=0",
            "oracle:addr|encodable|prefill>16",
            "oracle:section|encodable|prefill=0",
            "oracle:section-advanced|encodable|prefill=0",
            "oracle:type|encodable|prefill=0",
            "oracle:tuplet|encodable|prefill=0",
        ]
    }
    fn replay(&self, case: &str, rec: &mut Recorder) {
        if let Some(rest) = case.strip_prefix("seq:") {
            if let Some((vs, p)) = rest.rsplit_once('|') {
                let vals: Option<Vec<Val>> = vs.split(';').map(Val::parse).collect();
                if let (Some(vals), Some(p)) = (vals, Blob::parse(p)) {
                    judge_sequence(&vals, &p, rec);
                }
            }
        }
        if let Some(rest) = case.strip_prefix("edge:") {
            if let Some((v, p)) = rest.rsplit_once('|') {
                if let (Some(v), Some(p)) = (Val::parse(v), Blob::parse(p)) {
                    judge_edge(&v, p.len, rec);
                }
            }
        }
        if let Some(rest) = case.strip_prefix("val:") {
            if let Some((v, p)) = rest.rsplit_once('|') {
                if let (Some(v), Some(p)) = (Val::parse(v), Blob::parse(p)) {
                    judge(&v, &p, rec);
                }
            }
        }
    }
    fn assumptions(&self) -> Vec<&'static str> {
        vec!["usize / isize are 8 bytes on this target", "a writer already holding more than 65535+16 bytes is outside the statement"]
    }
}
