//! C11 — TLV iteration yields exactly the standard type-length-value walk and then stops.
//! Differential vs `spec::v2::tlv_ref`, address tiling of the yielded slices, fused-ness, and
//! (with the hook) the cursor after every step.

use crate::adapt::*;
use ppp::v2;
use spec::engine::{stream, stream_id, Monitor, StreamSpec, Tier};
use spec::json::show;
use spec::record::Recorder;
use spec::rng::{hash_bytes, Rng};
use spec::v2::{fam_size, tlv_case, tlv_ref, tlv_streams, valid_header, TlvEnd};

pub struct C11;

#[cfg(feature = "hooks")]
fn cursor(t: &v2::TypeLengthValues<'_>) -> Option<usize> {
    Some(t.verif_cursor())
}
#[cfg(not(feature = "hooks"))]
fn cursor(_t: &v2::TypeLengthValues<'_>) -> Option<usize> {
    None
}

fn skeleton(section: &[u8]) -> String {
    let (items, end) = tlv_ref(section);
    format!(
        "items{}|{}",
        items.len().min(3),
        match end {
            TlvEnd::Clean => "clean".to_string(),
            TlvEnd::Leftover(n) => format!("leftover{}", n),
            TlvEnd::Overrun { declared, .. } => format!("overrun{}", if declared > 255 { ">255" } else { "<=255" }),
        }
    )
}

/// Walks `it` (an iterator over `section`) and judges every step.
pub fn judge_iter(mut it: v2::TypeLengthValues<'_>, section: &[u8], via: &str, case: &dyn Fn() -> String, rec: &mut Recorder) {
    let (want, end) = tlv_ref(section);
    let base = section.as_ptr() as usize;
    let bound = section.len() / 3 + 1;
    let mut problems: Vec<(String, String)> = Vec::new();
    let r = guard(|| {
        let mut problems: Vec<(String, String)> = Vec::new();
        let mut states = 0u64;
        let mut i = 0usize;
        let mut yielded = 0usize;
        let mut finished_by: Option<&str> = None;
        if it.as_bytes() != section {
            problems.push(("section-bytes".into(), "iterator's as_bytes() differs from the section".into()));
        }
        loop {
            let c0 = cursor(&it);
            let item = it.next();
            let c1 = cursor(&it);
            if c0.is_some() {
                states += 1;
            }
            match item {
                None => {
                    if i < want.len() || end != TlvEnd::Clean {
                        problems.push(("early-end".into(), format!("iteration ended after {} items, reference walk has {} items then {:?}", i, want.len(), end)));
                    }
                    if let (Some(a), Some(b)) = (c0, c1) {
                        if a != b || b < section.len() {
                            problems.push(("cursor".into(), format!("cursor {} -> {} on None with section length {}", a, b, section.len())));
                        }
                    }
                    finished_by = Some("none");
                    break;
                }
                Some(Ok(t)) => {
                    yielded += 1;
                    if yielded > bound {
                        problems.push(("step-bound".into(), format!("more than n/3+1 = {} items", bound)));
                        break;
                    }
                    match want.get(i) {
                        None => {
                            problems.push(("extra-item".into(), format!("item #{} (kind {:#x}, {} bytes) but the reference walk ends after {} items with {:?}", i, t.kind, t.value.len(), want.len(), end)));
                            break;
                        }
                        Some(w) => {
                            let vptr = t.value.as_ptr() as usize;
                            if t.kind != w.kind || t.value.len() != w.len {
                                problems.push(("item-differs".into(), format!("item #{}: kind {:#x} len {}, reference kind {:#x} len {}", i, t.kind, t.value.len(), w.kind, w.len)));
                                break;
                            }
                            if t.value.as_ref() != &section[w.start + 3..w.start + 3 + w.len] {
                                problems.push(("value-differs".into(), format!("item #{}: value bytes differ from section[{}..{}]", i, w.start + 3, w.start + 3 + w.len)));
                                break;
                            }
                            if matches!(t.value, std::borrow::Cow::Borrowed(_)) && w.len > 0 && vptr != base + w.start + 3 {
                                problems.push(("tiling".into(), format!("item #{}: value slice starts at offset {}, expected {}", i, vptr.wrapping_sub(base), w.start + 3)));
                                break;
                            }
                            if let (Some(a), Some(b)) = (c0, c1) {
                                if a != w.start || b != w.start + 3 + w.len {
                                    problems.push(("cursor".into(), format!("item #{}: cursor {} -> {}, expected {} -> {}", i, a, b, w.start, w.start + 3 + w.len)));
                                    break;
                                }
                            }
                        }
                    }
                    i += 1;
                }
                Some(Err(e)) => {
                    if i < want.len() {
                        problems.push(("early-error".into(), format!("error {:?} at item #{}, reference walk has {} items", e, i, want.len())));
                    } else {
                        match end {
                            TlvEnd::Clean => problems.push(("spurious-error".into(), format!("error {:?} after a clean walk of {} items", e, i))),
                            TlvEnd::Leftover(_) => {} // the statement does not name this error
                            TlvEnd::Overrun { kind, declared } => {
                                if e != v2::ParseError::InvalidTLV(kind, declared) {
                                    problems.push(("overrun-error".into(), format!("overrun of type {:#x} declared {} reported as {:?}", kind, declared, e)));
                                }
                            }
                        }
                    }
                    if let Some(b) = c1 {
                        if b < section.len() {
                            problems.push(("cursor".into(), format!("cursor {} after an error, section length {}", b, section.len())));
                        }
                    }
                    finished_by = Some("error");
                    break;
                }
            }
        }
        // fused: nothing after the end / after an error
        if finished_by.is_some() {
            for k in 0..4 {
                if let Some(x) = it.next() {
                    problems.push(("item-after-end".into(), format!("call #{} after the {} returned {:?}", k + 1, finished_by.unwrap(), x.map(|t| (t.kind, t.value.len())))));
                    break;
                }
            }
        }
        (problems, states, i)
    });
    let (states, n_items) = match r {
        Ok((p, s, n)) => {
            problems = p;
            (s, n)
        }
        Err(m) => {
            problems.push(("panic".into(), m));
            (0, 0)
        }
    };
    rec.events(n_items as u64 + 5);
    if states > 0 {
        rec.class_n("hook:cursor-states-checked", states, || show(section, 40));
    }
    rec.class(
        &format!(
            "{}|items{}|{}",
            via,
            if want.len() > 3 { "4+".to_string() } else { want.len().to_string() },
            match end {
                TlvEnd::Clean => "clean",
                TlvEnd::Leftover(_) => "leftover",
                TlvEnd::Overrun { .. } => "overrun",
            }
        ),
        || show(section, 60),
    );
    for (rule, detail) in problems {
        rec.violation(&format!("{}:{}", rule, via), case(), skeleton(section), format!("{} via {} on section {:?}: {}", rule, via, show(section, 80), detail));
    }
}

/// Iterator adapters drive the same walk: `nth`, `count`, `last` must agree with the reference
/// walk, and an iterator that reported its end through `nth` must stay ended.
pub fn judge_adapters(fresh: v2::TypeLengthValues<'_>, section: &[u8], via: &str, case: &dyn Fn() -> String, rec: &mut Recorder) {
    let (want, end) = tlv_ref(section);
    let total = want.len() + if end == TlvEnd::Clean { 0 } else { 1 }; // items incl. the error item
    if total > 3000 {
        return; // keep it cheap: each nth() is a walk
    }
    // the consuming adapters below only terminate if plain iteration does: check that first
    // (judge_iter reports a walk that does not end; nothing more to learn here then)
    let finite = guard(|| {
        let mut it = fresh;
        for _ in 0..total + 5 {
            if it.next().is_none() {
                return true;
            }
        }
        false
    });
    if finite != Ok(true) {
        return;
    }
    let r = guard(|| {
        let mut bad: Vec<(String, String)> = Vec::new();
        // the reference walk as (kind, length) pairs, the error item as (0xFFFF, 0)
        let mut refseq: Vec<(u32, usize)> = want.iter().map(|w| (w.kind as u32, w.len)).collect();
        if end != TlvEnd::Clean {
            refseq.push((0xFFFF, 0));
        }
        let key = |r: &Result<v2::TypeLengthValue<'_>, v2::ParseError>| -> (u32, usize) {
            match r {
                Ok(t) => (t.kind as u32, t.value.len()),
                Err(_) => (0xFFFF, 0),
            }
        };
        // a partly consumed iterator carries on where it stopped, whichever method drives it
        let mut ks = vec![1usize, 2, total / 2, total.saturating_sub(1)];
        ks.retain(|&k| k >= 1 && k <= total);
        ks.dedup();
        for k in ks {
            let adv = || {
                let mut it = fresh;
                for _ in 0..k {
                    let _ = it.next();
                }
                it
            };
            let rest = &refseq[k..];
            let c = adv().count();
            if c != rest.len() {
                bad.push(("partly-consumed:count".into(), format!("after {} next() calls count() = {}, {} items are left in the reference walk", k, c, rest.len())));
            }
            let l = adv().last().map(|r| key(&r));
            if l != rest.last().copied() {
                bad.push(("partly-consumed:last".into(), format!("after {} next() calls last() = {:?}, expected {:?}", k, l, rest.last())));
            }
            let f = adv().fold(Vec::new(), |mut acc, r| {
                acc.push(key(&r));
                acc
            });
            if f != rest {
                bad.push(("partly-consumed:fold".into(), format!("after {} next() calls fold() visits {:?}, expected {:?}", k, &f[..f.len().min(6)], &rest[..rest.len().min(6)])));
            }
            let mut seen = Vec::new();
            adv().for_each(|r| seen.push(key(&r)));
            if seen != rest {
                bad.push(("partly-consumed:for_each".into(), format!("after {} next() calls for_each() visits {} items, expected {}", k, seen.len(), rest.len())));
            }
            let col: Vec<(u32, usize)> = adv().map(|r| key(&r)).collect();
            if col != rest {
                bad.push(("partly-consumed:collect".into(), format!("after {} next() calls collect() gives {} items, expected {}", k, col.len(), rest.len())));
            }
            let mut it = adv();
            let first: Vec<(u32, usize)> = it.by_ref().take(1).map(|r| key(&r)).collect();
            let after = it.count();
            if first.len() + after != rest.len() || first.first() != rest.first() {
                bad.push(("partly-consumed:by_ref".into(), format!("after {} next() calls by_ref().take(1) + count() = {} + {}, expected {} in total", k, first.len(), after, rest.len())));
            }
            let mut it = adv();
            let n1 = it.nth(1).map(|r| key(&r));
            if n1 != rest.get(1).copied() {
                bad.push(("partly-consumed:nth".into(), format!("after {} next() calls nth(1) = {:?}, expected {:?}", k, n1, rest.get(1))));
            }
            let s1 = adv().skip(1).next().map(|r| key(&r));
            if s1 != rest.get(1).copied() {
                bad.push(("partly-consumed:skip".into(), format!("after {} next() calls skip(1).next() = {:?}, expected {:?}", k, s1, rest.get(1))));
            }
            let (lo, hi) = adv().size_hint();
            if lo > rest.len() || hi.map_or(false, |h| h < rest.len()) {
                bad.push(("partly-consumed:size_hint".into(), format!("after {} next() calls size_hint() = ({}, {:?}), {} items are left", k, lo, hi, rest.len())));
            }
        }
        // fresh iterators: every consumer sees the whole reference walk
        let col: Vec<(u32, usize)> = fresh.map(|r| key(&r)).collect();
        if col != refseq {
            bad.push(("collect".into(), format!("collect() gives {} items, the reference walk has {}", col.len(), refseq.len())));
        }
        let f = fresh.fold(0usize, |a, _| a + 1);
        if f != refseq.len() {
            bad.push(("fold".into(), format!("fold() visits {} items, the reference walk has {}", f, refseq.len())));
        }
        let (lo, hi) = fresh.size_hint();
        if lo > refseq.len() || hi.map_or(false, |h| h < refseq.len()) {
            bad.push(("size_hint".into(), format!("size_hint() = ({}, {:?}), the reference walk has {} items", lo, hi, refseq.len())));
        }
        // skip(k) then the rest, take(k) then skip(k): together the whole walk, nothing twice
        for k in [1usize, total.saturating_sub(1), total] {
            if k <= total {
                let a: Vec<(u32, usize)> = fresh.take(k).map(|r| key(&r)).collect();
                let b: Vec<(u32, usize)> = fresh.skip(k).map(|r| key(&r)).collect();
                if a.len() + b.len() != refseq.len() || a[..] != refseq[..a.len().min(refseq.len())] || b[..] != refseq[refseq.len() - b.len().min(refseq.len())..] {
                    bad.push(("take+skip".into(), format!("take({}) gives {} items and skip({}) gives {}, the reference walk has {}", k, a.len(), k, b.len(), refseq.len())));
                }
                let st: Vec<(u32, usize)> = fresh.step_by(k.max(1)).map(|r| key(&r)).collect();
                let want_st: Vec<(u32, usize)> = refseq.iter().copied().step_by(k.max(1)).collect();
                if st != want_st {
                    bad.push(("step_by".into(), format!("step_by({}) gives {} items, expected {}", k.max(1), st.len(), want_st.len())));
                }
            }
        }
        let n = fresh.count();
        if n != total {
            bad.push(("count".into(), format!("count() = {}, the reference walk has {} items (error item included)", n, total)));
        }
        match (fresh.last(), total) {
            (None, 0) => {}
            (Some(Ok(t)), _) if end == TlvEnd::Clean && want.last().map(|w| (w.kind, w.len)) == Some((t.kind, t.value.len())) => {}
            (Some(Err(_)), _) if end != TlvEnd::Clean => {}
            (other, _) => bad.push(("last".into(), format!("last() = {:?}", other.map(|r| r.map(|t| (t.kind, t.value.len())))))),
        }
        // nth(j) for a few j inside, at and beyond the end
        let mut js = vec![0usize, total / 2, total.saturating_sub(1), total, total + 1, total + 7];
        js.dedup();
        for j in js {
            let mut it = fresh;
            let got = it.nth(j);
            if j < want.len() {
                match &got {
                    Some(Ok(t)) if t.kind == want[j].kind && t.value.as_ref() == &section[want[j].start + 3..want[j].start + 3 + want[j].len] => {}
                    other => bad.push(("nth".into(), format!("nth({}) = {:?}, reference item is kind {:#x} len {}", j, other.as_ref().map(|r| r.as_ref().map(|t| (t.kind, t.value.len()))), want[j].kind, want[j].len))),
                }
            } else if j == want.len() && end != TlvEnd::Clean {
                if !matches!(got, Some(Err(_))) {
                    bad.push(("nth".into(), format!("nth({}) should be the single error item, got {:?}", j, got.map(|r| r.map(|t| (t.kind, t.value.len()))))));
                }
            } else if got.is_some() {
                bad.push(("nth".into(), format!("nth({}) past the end returned an item", j)));
            }
            if j >= total {
                // the end has been reported: nothing may follow
                for k in 0..3 {
                    if let Some(x) = it.next() {
                        bad.push(("item-after-end".into(), format!("nth({}) returned None, yet next() call #{} afterwards yields {:?}", j, k + 1, x.map(|t| (t.kind, t.value.len())))));
                        break;
                    }
                }
            }
        }
        // skip / step_by are built on nth
        let mut sk = fresh.skip(total + 2);
        if sk.next().is_some() || sk.next().is_some() {
            bad.push(("item-after-end".into(), "skip(past the end) yields an item".into()));
        }
        bad
    });
    rec.events(10);
    match r {
        Ok(bad) => {
            if bad.is_empty() {
                rec.class(&format!("{}|adapters(count,last,nth,skip) agree", via), || show(section, 40));
            }
            for (rule, d) in bad {
                rec.violation(&format!("{}:{}", rule, via), case(), skeleton(section), format!("{} via {} on section {:?}: {}", rule, via, show(section, 80), d));
            }
        }
        Err(m) => rec.violation(&format!("panic:{}", via), case(), skeleton(section), format!("iterator adapter panicked on section {:?}: {}", show(section, 80), m)),
    }
}

pub fn judge_section(section: &[u8], rec: &mut Recorder) {
    rec.case(hash_bytes(section), section.len() >= 3);
    let (want, end) = tlv_ref(section);
    rec.class(
        match end {
            TlvEnd::Clean if want.is_empty() => "oracle:empty",
            TlvEnd::Clean => "oracle:clean",
            TlvEnd::Leftover(_) => "oracle:leftover",
            TlvEnd::Overrun { declared, .. } if declared > 255 => "oracle:overrun-length>255",
            TlvEnd::Overrun { .. } => "oracle:overrun",
        },
        || show(section, 60),
    );
    if want.iter().any(|w| w.len == 0) {
        rec.class("oracle:zero-length-value", || show(section, 60));
    }
    if want.iter().any(|w| w.len > 255) {
        rec.class("oracle:value-length>255", || show(section, 30));
    }
    let case = || enc_case("tlv", &section[..section.len().min(70_100)]);
    judge_iter(v2::TypeLengthValues::from(section), section, "from-slice", &case, rec);
    judge_adapters(v2::TypeLengthValues::from(section), section, "from-slice", &case, rec);
}

pub fn judge_header(input: &[u8], rec: &mut Recorder) {
    // only headers the wire format accepts are C11's subject (history siblings may be anything)
    if !spec::v2::v2_ref(input).is_ok() {
        rec.case(hash_bytes(input), false);
        rec.class("skipped:not-a-valid-header", || show(input, 40));
        return;
    }
    let fam = (input[13] >> 4) as u8;
    let len = u16::from_be_bytes([input[14], input[15]]) as usize;
    let size = fam_size(fam).unwrap_or(0);
    // the TLV section per the wire format: what follows the address block (nothing for family 0,
    // whose whole payload is the address view)
    let section: &[u8] = if fam == 0 { &[] } else { &input[16 + size..16 + len] };
    rec.case(hash_bytes(input), section.len() >= 3);
    rec.class("oracle:section-of-accepted-header", || show(input, 40));
    let case = || enc_case("v2", &input[..input.len().min(70_100)]);
    match guard(|| v2::Header::try_from(input)) {
        Ok(Ok(h)) => {
            // locate the section inside the header's own buffer for the tiling check
            let hb = h.as_bytes();
            if hb.len() != 16 + len {
                // the header itself is wrong (C02 / C14's subject): no well-defined section to walk
                rec.class("skipped:header-bytes-differ-from-wire(C02's subject)", || show(input, 40));
                return;
            }
            let sec_in_h: &[u8] = if fam == 0 { &hb[hb.len()..] } else { &hb[16 + size..16 + len] };
            if h.tlv_bytes() != section {
                rec.violation("section-bytes:header", case(), "header".into(), format!("tlv_bytes() differs from the bytes after the address block on {}", show(input, 60)));
            }
            judge_iter(h.tlvs(), sec_in_h, "header.tlvs()", &case, rec);
            judge_adapters(h.tlvs(), sec_in_h, "header.tlvs()", &case, rec);
            let o = h.to_owned();
            let ob = o.as_bytes();
            if ob.len() != 16 + len {
                rec.class("skipped:owned-copy-differs(C16's subject)", || show(input, 40));
                return;
            }
            let sec_in_o: &[u8] = if fam == 0 { &ob[ob.len()..] } else { &ob[16 + size..16 + len] };
            judge_iter(o.tlvs(), sec_in_o, "owned-header.tlvs()", &case, rec);
        }
        _ => rec.class("skipped:implementation-rejects-valid-header", || show(input, 40)),
    }
}

impl Monitor for C11 {
    fn id(&self) -> &'static str {
        "C11"
    }
    fn rule(&self) -> &'static str {
        "cases = TLV sections: all byte strings over {0,1,2,3,0xFF} up to length 8 (exhaustive), well-formed sequences cut at every point, items of 0/1/2/255/256/257/65534/65535 value bytes at exact fit / one short / one extra / one extra item header, declared lengths that overrun, random sections up to 70000 bytes, and the TLV section of valid headers of every family (borrowed and owned); each is iterated through the real iterator and every step compared with the reference walk (kind, value bytes, slice address = section start + offset, error item, nothing after the end; with the hook: cursor before and after every step), and the iterator adapters count / last / nth / skip are driven on a fresh copy and must agree with the same walk; non-trivial = section of at least 3 bytes; distinct = distinct sections"
    }
    fn streams(&self, tier: Tier) -> Vec<StreamSpec> {
        let mut s = tlv_streams(tier, 10_000);
        s.push(stream("c11-headers", tier.n(30, 300_000, 10_000_000)));
        s.push(stream("c11-owned-queue", tier.n(10, 60_000, 2_000_000)));
        if tier != Tier::Miri {
            s.push(spec::engine::exhaustive("c11-huge", 12));
        }
        s
    }
    fn run_case(&self, stream: &str, idx: u64, seed: u64, rec: &mut Recorder) {
        if stream == "c11-huge" {
            // a section of 2 GiB .. 8 GiB (lazily zeroed): the first items are what the standard
            // walk gives - a TLV with a one-byte value, then empty type-0 TLVs
            if !spec::engine::huge_ok() {
                return;
            }
            let size = spec::engine::HUGE_SIZES[idx as usize % spec::engine::HUGE_SIZES.len()];
            let k = 1 + (idx as u8 % 200);
            let front = [k, 0, 1, 0xAA, 0, 0, 0];
            rec.case(spec::rng::mix(idx ^ 0x4711), true);
            rec.event();
            let r = spec::engine::with_huge(&front, size, |x| {
                guard(|| {
                    let mut it = v2::TypeLengthValues::from(x);
                    let a = it.next().map(|r| r.map(|t| (t.kind, t.value.to_vec())).map_err(|e| format!("{:?}", e)));
                    let b = it.next().map(|r| r.map(|t| (t.kind, t.value.to_vec())).map_err(|e| format!("{:?}", e)));
                    (a, b)
                })
            });
            match r {
                None => rec.class("skipped:huge-allocation-refused", || size.to_string()),
                Some(Ok((Some(Ok((ka, va))), Some(Ok((0, vb)))))) if ka == k && va == vec![0xAA] && vb.is_empty() => rec.class("oracle:multi-GiB-section", || format!("{} bytes", size)),
                Some(other) => rec.violation("item-differs:from-slice", format!("huge:{}:{}", idx, seed), "huge-section".into(), format!("section of {} bytes starting with TLV ({}, [0xAA]) followed by zero bytes: the first two items are {:?}", size, k, other)),
            }
            return;
        }
        if stream == "c11-owned-queue" {
            // headers are parsed first and their owned copies are walked later, one after the other,
            // each dropped before the next is made (so the allocator hands out the same block
            // again): sections of one length at one address with different TLV boundaries, and no
            // parse in between
            let s = tlv_case(if idx % 2 == 0 { "tlv-wf" } else { "tlv-rand" }, idx, seed);
            if s.len() > 4096 {
                return;
            }
            let mut sections = spec::sib::tlv_history(&s, idx);
            sections.truncate(5);
            let images: Vec<Vec<u8>> = sections
                .iter()
                .map(|sec| {
                    let mut b = spec::v2::SIG.to_vec();
                    let len = 12 + sec.len();
                    b.extend_from_slice(&[0x21, 0x11, (len >> 8) as u8, len as u8, 10, 0, 0, 1, 10, 0, 0, 2, 0, 80, 1, 187]);
                    b.extend_from_slice(sec);
                    b
                })
                .collect();
            let parsed: Vec<Option<v2::Header<'_>>> = images.iter().map(|b| guard(|| v2::Header::try_from(&b[..]).ok()).ok().flatten()).collect();
            for round in 0..2 {
                for (i, h) in parsed.iter().enumerate() {
                    let Some(h) = h else { continue };
                    let case = || enc_case("v2", &images[i]);
                    rec.case(hash_bytes(&images[i]) ^ round, sections[i].len() >= 3);
                    if round == 0 {
                        let o = h.to_owned();
                        let ob = o.as_bytes();
                        if ob.len() == images[i].len() {
                            judge_iter(o.tlvs(), &ob[28..], "queued-owned-header.tlvs()", &case, rec);
                        }
                    } else {
                        judge_iter(h.tlvs(), &images[i][28..], "queued-header.tlvs()", &case, rec);
                    }
                }
            }
            rec.class("oracle:owned-copies-walked-in-a-queue", || format!("{} sections of {} bytes", sections.len(), s.len()));
            return;
        }
        if stream == "c11-headers" {
            let mut rng = Rng::for_case(seed, stream_id(stream), idx);
            let mut b = Vec::new();
            valid_header(&mut rng, &mut b);
            spec::sib::run_v2(&b, idx, 4, |x| judge_header(x, rec));
        } else {
            let s = tlv_case(stream, idx, seed);
            spec::sib::run_tlv(&s, idx, 3, |x| judge_section(x, rec));
        }
    }
    fn floor(&self, tier: Tier) -> Vec<&'static str> {
        if tier == Tier::Miri {
            return vec!["oracle:clean", "oracle:overrun", "oracle:leftover"];
        }
        vec![
            "oracle:empty",
            "oracle:clean",
            "oracle:leftover",
            "oracle:overrun",
            "oracle:overrun-length>255",
            "oracle:zero-length-value",
            "oracle:value-length>255",
            "oracle:section-of-accepted-header",
        ]
    }
    fn replay(&self, case: &str, rec: &mut Recorder) {
        match dec_case(case) {
            Some(("tlv", bytes)) => judge_section(&bytes, rec),
            Some(("v2", bytes)) if bytes.len() >= 16 => judge_header(&bytes, rec),
            _ => {}
        }
    }
}
