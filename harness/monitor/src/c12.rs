//! C12 — a single malformed element is rejected terminally and blamed on the right field.
//! Corruption-table monitor: well-formed complete header, exactly one element replaced by a
//! spelling that the oracle's element recogniser confirms to be invalid, expected error kind from
//! the table in DESIGN.md §4.

use crate::adapt::*;
use spec::engine::{stream, stream_id, Monitor, StreamSpec, Tier};
use spec::json::show;
use spec::record::{skeleton_text, Recorder};
use spec::rng::{hash_bytes, Rng};
use spec::v1::{parse_port, parse_v4, parse_v6, v1_ref, V1Ref};
use spec::v1gen::*;
use spec::v2::{fam_size, v2_ref, valid_header, V2Ref};

pub struct C12;

const ELEMENT: [&str; 6] = ["keyword", "protocol", "source-address", "destination-address", "source-port", "destination-port"];
const EXPECT: [K1; 6] = [K1::InvalidPrefix, K1::InvalidProtocol, K1::InvalidSourceAddress, K1::InvalidDestinationAddress, K1::InvalidSourcePort, K1::InvalidDestinationPort];

/// Judges one corrupted v1 line through the byte, text and auto-detecting entry points.
/// `expect = None`: only "terminal, not accepted" is demanded.
fn judge_v1(line: &[u8], element: &str, expect: Option<K1>, rec: &mut Recorder) {
    judge_v1_at(line, element, expect, rec);
    // one case in four once more the way a server sees it: in a receive buffer that held an
    // unfinished CR-free line of other content (reaching beyond this line's CR) when it was
    // refilled, and followed by payload - a long CR-free one, a non-UTF-8 one, or a second line.
    // The single corrupted element and therefore the expected verdict are the same.
    let hsh = hash_bytes(line);
    if spec::engine::small() || hsh % 4 != 0 {
        return;
    }
    if let Some(p) = line.iter().position(|&b| b == b'\r') {
        if p + 2 < 106 && p + 2 <= line.len() {
            let n = p + 3 + ((hsh >> 8) as usize) % (106 - (p + 2));
            let fill = vec![b'A'; n];
            let mut full = line.to_vec();
            match (hsh >> 20) % 3 {
                0 => full.extend(std::iter::repeat(b'x').take(130)),
                1 => full.extend_from_slice(&[0x16, 0x03, 0x01, 0xFF, 0xFE, 0x80, 0xC3, 0x28, 0xA0, 0xA1, 0xE2, 0x28, 0xF0, 0x90]),
                _ => {
                    full.extend(std::iter::repeat(b'y').take(106usize.saturating_sub(p + 2)));
                    full.extend_from_slice(b"\r\nGET / HTTP/1.1\r\n");
                }
            }
            let items = [fill, full];
            let mut first = true;
            spec::engine::placed_seq(&items, hsh >> 4, |y| {
                if first {
                    first = false;
                    let _ = v1_bytes(y);
                    let _ = auto_parse(y);
                    rec.events(2);
                } else {
                    judge_v1_at(y, element, expect, rec);
                }
            });
        }
    }
}

fn judge_v1_at(line: &[u8], element: &str, expect: Option<K1>, rec: &mut Recorder) {
    rec.case(hash_bytes(line), true);
    rec.class(&format!("oracle:v1-corrupt-{}", element), || show(line, 120));
    let mut outs: Vec<(&str, O1)> = vec![("v1-bytes", v1_bytes(line))];
    if let Ok(s) = std::str::from_utf8(line) {
        if expect != Some(K1::InvalidUtf8) {
            outs.push(("v1-str", v1_str(s)));
            outs.push(("fromstr-header", v1_fromstr_header(s)));
            outs.push(("fromstr-addr", v1_fromstr_addr(s)));
        }
    }
    match auto_parse(line) {
        OA::V1(o) => outs.push(("auto", o)),
        OA::V2(o) => outs.push(("auto", O1::Panic(format!("auto-detection answered with a v2 result on a text line: {}", o.class())))),
        OA::Panic(m) => outs.push(("auto", O1::Panic(m))),
    }
    for (entry, o) in outs {
        rec.event();
        if rec.verbose {
            println!("  {} -> {:?}", entry, o);
        }
        // a character after the CR: the text entry points see a string, so the only malformed
        // element is what follows the CR; the byte entry points may also call it invalid UTF-8
        // (the examined window ends inside the character) - any terminal error there
        let expect = if element == "char-after-cr" && entry != "v1-bytes" && entry != "auto" { Some(K1::InvalidSuffix) } else { expect };
        let bad = match &o {
            O1::Ok { .. } => Some(format!("accepted: {}", o.class())),
            O1::Panic(m) => Some(format!("panic / wrong variant: {}", m)),
            O1::Err { kind, inc, comp } => {
                if *inc || !*comp {
                    Some(format!("error {:?} is flagged incomplete (a receiver would keep waiting)", kind))
                } else if expect.is_some() && Some(*kind) != expect {
                    Some(format!("error kind {:?}, the corrupted element is the {} (expected {:?})", kind, element, expect.unwrap()))
                } else {
                    None
                }
            }
        };
        match bad {
            None => rec.class(&format!("{}|{}|{}", entry, element, o.class()), || show(line, 120)),
            Some(d) => rec.violation(&format!("v1-{}:{}", element, entry), enc_case("v1", line), format!("{}|{}", element, skeleton_text(line)), format!("corrupted {} in {:?} via {}: {}", element, show(line, 160), entry, d)),
        }
    }
}

fn v1_corruption(idx: u64, rng: &mut Rng, rec: &mut Recorder) {
    let v6 = (idx / 6) % 2 == 1;
    let e = (idx % 6) as usize;
    let mut f = valid_tcp_fields(rng, v6);
    let pool: &[&str] = match e {
        0 => &BAD_KEYWORD,
        1 => &BAD_PROTOCOL,
        2 | 3 => {
            if v6 {
                &BAD_V6
            } else {
                &BAD_V4
            }
        }
        _ => &BAD_PORT,
    };
    // the fixed pools are enumerated by idx; every other case takes a decoration of the valid
    // value / a random near-miss instead
    let generated;
    let bad: &str = if (idx / 12) % 8 == 7 && f[e].len() >= 2 {
        // a corruption that a checksum-like fingerprint of the line does not see: the same XOR
        // delta on two characters 1 / 2 / 4 / 8 apart (xor folds of those widths are unchanged),
        // or +1 / -1 on two characters (byte sums are unchanged); same length as the valid value
        let mut v = f[e].clone().into_bytes();
        let n = v.len();
        let dist = *rng.pick(&[1usize, 2, 4, 8, 8, 4]);
        let dist = if dist < n { dist } else { 1 };
        let i = rng.below((n - dist) as u64) as usize;
        if rng.chance(3, 4) {
            // deltas that keep a digit a printable non-separator character
            let d = *rng.pick(&[0x08u8, 0x01, 0x02, 0x04, 0x10, 0x40, 0x50]);
            v[i] ^= d;
            v[i + dist] ^= d;
        } else {
            v[i] = v[i].wrapping_add(1);
            v[i + dist] = v[i + dist].wrapping_sub(1);
        }
        generated = String::from_utf8_lossy(&v).into_owned();
        &generated
    } else if (idx / 12) % 2 == 1 {
        generated = bad_spelling(rng, e, v6, &f[e]);
        &generated
    } else {
        pool[((idx / 24) % pool.len() as u64) as usize]
    };
    // the replacement must keep the field structure and be invalid for this element
    let invalid = match e {
        0 => bad != "PROXY",
        1 => !matches!(bad, "TCP4" | "TCP6" | "UNKNOWN"),
        2 | 3 => {
            if v6 {
                parse_v6(bad).is_none()
            } else {
                parse_v4(bad).is_none()
            }
        }
        _ => parse_port(bad).is_err(),
    };
    if !invalid || bad.contains(' ') || bad.contains('\r') || bad.contains('\u{fffd}') || bad.bytes().any(|b| b < 0x20 || b >= 0x7f) && (idx / 12) % 8 == 7 {
        rec.class("skipped:replacement-not-usable", || bad.to_string());
        return;
    }
    let base = format!("{}\r\n", f.join(" "));
    f[e] = bad.to_string();
    let line = format!("{}\r\n", f.join(" "));
    // every other element is still valid: the base line is accepted by the oracle, the corrupted one is not
    if !matches!(v1_ref(base.as_bytes()), V1Ref::Accept(_)) || matches!(v1_ref(line.as_bytes()), V1Ref::Accept(_)) || line.len() > 107 {
        rec.class("skipped:base-not-valid-or-corruption-still-valid", || line.clone());
        return;
    }
    let mut bytes = line.into_bytes();
    if rng.chance(1, 4) {
        let ts = trailers();
        bytes.extend_from_slice(rng.pick(&ts[..]).as_slice());
    }
    if idx % 3 == 0 && base.len() + (bytes.len() - bytes.iter().position(|&b| b == b'\n').map(|p| p + 1).unwrap_or(bytes.len())) >= 1 {
        // the well-formed line is parsed first, in the same buffer, through the entry point that
        // the corrupted line goes through next (one call each, nothing in between)
        let items = [base.clone().into_bytes(), bytes.clone()];
        for entry in 0..5u8 {
            let mut first = true;
            spec::engine::placed_seq(&items, idx ^ entry as u64, |y| {
                let o = match (entry, std::str::from_utf8(y)) {
                    (1, Ok(t)) => v1_str(t),
                    (2, Ok(t)) => v1_fromstr_header(t),
                    (3, Ok(t)) => v1_fromstr_addr(t),
                    (4, _) => match auto_parse(y) {
                        OA::V1(o) => o,
                        _ => return,
                    },
                    _ => v1_bytes(y),
                };
                rec.event();
                if first {
                    first = false;
                } else if let O1::Ok { .. } = o {
                    rec.violation(
                        &format!("v1-{}:after-the-well-formed-line", ELEMENT[e]),
                        enc_case("v1", y),
                        format!("{}|{}", ELEMENT[e], skeleton_text(y)),
                        format!("corrupted {} in {:?}, parsed right after the well-formed line {:?} in the same buffer (entry point #{}): accepted: {}", ELEMENT[e], show(y, 160), show(base.as_bytes(), 80), entry, o.class()),
                    );
                }
            });
        }
    }
    judge_v1(&bytes, ELEMENT[e], Some(EXPECT[e]), rec);
}

fn v1_extra(idx: u64, rng: &mut Rng, rec: &mut Recorder) {
    let body = match rng.below(3) {
        0 => valid_tcp_fields(rng, false).join(" "),
        1 => valid_tcp_fields(rng, true).join(" "),
        _ => {
            // UNKNOWN with an ASCII tail
            loop {
                let t = unknown_tail(rng);
                if t.is_ascii() {
                    break format!("PROXY UNKNOWN{}", t);
                }
            }
        }
    };
    if !matches!(v1_ref(format!("{}\r\n", body).as_bytes()), V1Ref::Accept(_)) {
        return;
    }
    if idx % 16 == 13 {
        // a whole (multi-byte) character after the CR instead of the LF, the CR anywhere up to the
        // last position that still leaves the line within the limit
        let mut line = body.into_bytes();
        if line.starts_with(b"PROXY UNKNOWN") && rng.coin() {
            if !line.starts_with(b"PROXY UNKNOWN ") {
                line.push(b' ');
            }
            let want = rng.range(96, 105) as usize;
            while line.len() < want {
                line.push(*rng.pick(b"abc 0:."));
            }
            line.truncate(want.max(14));
        }
        line.push(b'\r');
        line.extend_from_slice(rng.pick(&["\u{e9}", "\u{20ac}", "\u{1f600}", "\u{80}", "\u{7ff}", "\u{ffff}"]).as_bytes());
        if rng.coin() {
            line.extend_from_slice(b"\nrest");
        }
        judge_v1(&line, "char-after-cr", None, rec);
        return;
    }
    match idx % 4 {
        0 | 1 => {
            // the byte after CR, every value but LF
            let b = ((idx / 4) % 256) as u8;
            if b == b'\n' {
                return;
            }
            let mut line = body.into_bytes();
            if line.starts_with(b"PROXY UNKNOWN ") && line.len() + 3 <= 107 && rng.chance(1, 3) {
                // whatever ASCII byte directly before the CR
                line.push(*rng.pick(b"\x00\x01\x08\x09\x0a\x0b\x0c\x0e\x0f\x1f\x7f\x0c\x0c !~"));
            }
            line.push(b'\r');
            line.push(b);
            if rng.coin() {
                line.extend_from_slice(b"\nrest");
            }
            if b < 0x80 {
                judge_v1(&line, "byte-after-cr", Some(K1::InvalidSuffix), rec);
            } else {
                judge_v1(&line, "byte-after-cr(non-ascii)", None, rec);
            }
        }
        2 => {
            // an UNKNOWN line made longer than 107 bytes
            let total = rng.range(108, 140) as usize;
            let mut s = String::from("PROXY UNKNOWN ");
            // (multi-byte characters among the fillers: bytes, not characters, are counted)
            let wide = rng.chance(1, 3);
            while s.len() + 2 < total {
                s.push(*rng.pick(if wide { &['x', ' ', '\u{e9}', '\u{6771}', '\u{1f600}', ':'][..] } else { &['x', ' ', '1', ':'][..] }));
            }
            if s.len() + 2 < 108 {
                return;
            }
            s.push_str("\r\n");
            judge_v1(s.as_bytes(), "line-length", Some(K1::HeaderTooLong), rec);
        }
        _ => {
            // invalid UTF-8 inside the UNKNOWN text (byte entry points only)
            let mut line = b"PROXY UNKNOWN ".to_vec();
            let pre = rng.below(10) as usize;
            line.extend(std::iter::repeat(b'a').take(pre));
            line.extend_from_slice(*rng.pick(&[&b"\xff"[..], b"\xc3", b"\xe2\x82", b"\xf0\x90\x80", b"\x80", b"\xc0\xaf", b"\xed\xa0\x80", b"\xf8\x88\x80\x80\x80"]));
            if rng.coin() {
                line.extend_from_slice(b" tail");
            }
            line.extend_from_slice(b"\r\n");
            if std::str::from_utf8(&line).is_ok() {
                return;
            }
            judge_v1(&line, "utf8", Some(K1::InvalidUtf8), rec);
        }
    }
}

fn judge_v2(input: &[u8], element: &str, expect: V2Ref, rec: &mut Recorder) {
    rec.case(hash_bytes(&input[..input.len().min(64)]) ^ input.len() as u64, true);
    rec.event();
    let o = v2_parse(input);
    let ok = match &o {
        O2::Err { kind, inc, comp, .. } => *kind == Some(expect) && !*inc && *comp,
        _ => false,
    };
    if ok {
        rec.class(&format!("v2|{}|{}", element, o.class()), || show(&input[..input.len().min(24)], 24));
    } else {
        rec.violation(
            &format!("v2-{}:v2", element),
            enc_case("v2", &input[..input.len().min(70_100)]),
            format!("{}|{}", element, crate::c02::skeleton_v2(input)),
            format!("corrupted {} in header {:?}: expected terminal {:?}, got {:?}", element, show(&input[..input.len().min(24)], 24), expect, match &o {
                O2::Ok { header, .. } => format!("Ok({} bytes)", header.len()),
                other => format!("{:?}", other),
            }),
        );
    }
    // through the auto-detecting entry: terminal and not accepted (the kind is the v1 parser's)
    rec.event();
    let a = auto_parse(input);
    let fine = !a.is_ok() && matches!(a.flags(), Some((false, true)));
    if fine {
        rec.class(&format!("auto|{}|{}", element, a.class()), || show(&input[..input.len().min(24)], 24));
    } else {
        rec.violation(
            &format!("v2-{}:auto", element),
            enc_case("v2", &input[..input.len().min(70_100)]),
            format!("{}|{}", element, crate::c02::skeleton_v2(input)),
            format!("corrupted {} in header {:?} through HeaderResult::parse: expected a terminal error, got {}", element, show(&input[..input.len().min(24)], 24), a.class()),
        );
    }
}

fn v2_corruptions(rng: &mut Rng, rec: &mut Recorder) {
    let mut base = Vec::new();
    let meta = valid_header(rng, &mut base);
    if !v2_ref(&base).is_ok() {
        return;
    }
    if base.len() > 4000 {
        base.truncate(16 + meta.declared.min(3984)); // keep the sweep cheap: shorten, then fix the length
        let l = base.len() - 16;
        base[14] = (l >> 8) as u8;
        base[15] = l as u8;
    }
    if rng.coin() {
        base.extend_from_slice(b"trailing");
    }
    rec.class("oracle:v2-base-header", || show(&base[..base.len().min(24)], 24));
    let mut x = base.clone();
    for pos in 0..12 {
        for d in 1..=255u8 {
            x[pos] = base[pos].wrapping_add(d);
            judge_v2(&x, "signature", V2Ref::Prefix, rec);
        }
        x[pos] = base[pos];
    }
    for v in 0..16u8 {
        if v != 2 {
            x[12] = (v << 4) | (base[12] & 0x0F);
            judge_v2(&x, "version", V2Ref::Version(v << 4), rec);
        }
    }
    x[12] = base[12];
    for c in 2..16u8 {
        x[12] = 0x20 | c;
        judge_v2(&x, "command", V2Ref::Command(c), rec);
    }
    x[12] = base[12];
    for f in 4..16u8 {
        x[13] = (f << 4) | (base[13] & 0x0F);
        judge_v2(&x, "family", V2Ref::Family(f << 4), rec);
    }
    x[13] = base[13];
    for t in 3..16u8 {
        x[13] = (base[13] & 0xF0) | t;
        judge_v2(&x, "transport", V2Ref::Transport(t), rec);
    }
    x[13] = base[13];
    let size = fam_size(base[13] >> 4).unwrap_or(0);
    for l in 0..size {
        x[14] = (l >> 8) as u8;
        x[15] = l as u8;
        judge_v2(&x, "length", V2Ref::InvalidAddresses(l, size), rec);
    }
}

impl Monitor for C12 {
    fn id(&self) -> &'static str {
        "C12"
    }
    fn rule(&self) -> &'static str {
        "cases = single-element corruptions of complete well-formed headers. v1: random valid TCP4/TCP6 lines x element (keyword, protocol, source/destination address, source/destination port) x every spelling of that element's invalid pool (14 keywords, 16 protocols, 26 IPv4, 32 IPv6, 30 port spellings; the oracle's element recogniser must confirm each is invalid and the rest of the line valid); CR followed by each of the 255 non-LF byte values; UNKNOWN lines longer than 107 bytes; invalid UTF-8 in UNKNOWN text; judged through try_from(&[u8]), try_from(&str), FromStr and HeaderResult::parse for a terminal error of the tabled kind. v2: random valid headers x every signature byte x 255 values, 15 versions, 14 commands, 12 families, 13 transports, every too-small length, judged through v2::Header::try_from (kind and payload) and HeaderResult::parse (terminal); every case is non-trivial; distinct = distinct corrupted inputs"
    }
    fn streams(&self, tier: Tier) -> Vec<StreamSpec> {
        vec![
            stream("c12-v1", tier.n(120, 2_000_000, 40_000_000)),
            stream("c12-v1-extra", tier.n(64, 200_000, 10_000_000)),
            stream("c12-v2", tier.n(2, 600, 20_000)),
        ]
    }
    fn run_case(&self, stream: &str, idx: u64, seed: u64, rec: &mut Recorder) {
        let mut rng = Rng::for_case(seed, stream_id(stream), idx);
        match stream {
            "c12-v1" => v1_corruption(idx, &mut rng, rec),
            "c12-v1-extra" => v1_extra(idx, &mut rng, rec),
            _ => v2_corruptions(&mut rng, rec),
        }
    }
    fn floor(&self, tier: Tier) -> Vec<&'static str> {
        if tier == Tier::Miri {
            return vec!["oracle:v1-corrupt-keyword", "oracle:v2-base-header"];
        }
        vec![
            "oracle:v1-corrupt-keyword",
            "oracle:v1-corrupt-protocol",
            "oracle:v1-corrupt-source-address",
            "oracle:v1-corrupt-destination-address",
            "oracle:v1-corrupt-source-port",
            "oracle:v1-corrupt-destination-port",
            "oracle:v1-corrupt-byte-after-cr",
            "oracle:v1-corrupt-byte-after-cr(non-ascii)",
            "oracle:v1-corrupt-line-length",
            "oracle:v1-corrupt-utf8",
            "oracle:v2-base-header",
        ]
    }
    fn replay(&self, case: &str, rec: &mut Recorder) {
        // a replay re-derives the expectation from the corrupted input itself
        match dec_case(case) {
            Some(("v1", line)) => {
                let cr = line.iter().position(|&b| b == b'\r');
                let body = &line[..cr.unwrap_or(line.len())];
                if std::str::from_utf8(body).is_err() {
                    return judge_v1(&line, "utf8", Some(K1::InvalidUtf8), rec);
                }
                if let Some(i) = cr {
                    if i + 1 < line.len() && line[i + 1] != b'\n' {
                        return judge_v1(&line, "byte-after-cr", if line[i + 1] < 0x80 { Some(K1::InvalidSuffix) } else { None }, rec);
                    }
                    if i + 2 > 107 {
                        return judge_v1(&line, "line-length", Some(K1::HeaderTooLong), rec);
                    }
                }
                let s = String::from_utf8_lossy(body).to_string();
                let f: Vec<&str> = s.split(' ').collect();
                let v6 = f.get(1) == Some(&"TCP6");
                let ok = |e: usize, t: &str| -> bool {
                    match e {
                        0 => t == "PROXY",
                        1 => matches!(t, "TCP4" | "TCP6"),
                        2 | 3 => {
                            if v6 {
                                parse_v6(t).is_some()
                            } else {
                                parse_v4(t).is_some()
                            }
                        }
                        _ => parse_port(t).is_ok(),
                    }
                };
                if f.len() == 6 {
                    let bad: Vec<usize> = (0..6).filter(|&e| !ok(e, f[e])).collect();
                    if bad.len() == 1 || (bad.len() >= 1 && bad[0] == 1) {
                        let e = bad[0];
                        return judge_v1(&line, ELEMENT[e], Some(EXPECT[e]), rec);
                    }
                }
                println!("  replay: the input is not a single-element corruption; nothing to judge");
            }
            Some(("v2", input)) if input.len() >= 16 => {
                let r = v2_ref(&input);
                let el = match r {
                    V2Ref::Prefix => "signature",
                    V2Ref::Version(_) => "version",
                    V2Ref::Command(_) => "command",
                    V2Ref::Family(_) => "family",
                    V2Ref::Transport(_) => "transport",
                    V2Ref::InvalidAddresses(..) => "length",
                    _ => return,
                };
                judge_v2(&input, el, r, rec);
            }
            _ => {}
        }
    }
    fn assumptions(&self) -> Vec<&'static str> {
        vec![
            "inner payloads of v1 errors (AddrParseError, ParseIntError) are not compared; v2 payloads are",
            "through HeaderResult::parse a malformed v2 header is only required to be a terminal, unaccepted result",
        ]
    }
}
