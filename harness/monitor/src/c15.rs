//! C15 — v1 header views reconstruct the header text.
//! String surgery on the raw input line, independent of ppp's offsets.

use crate::adapt::*;
use ppp::v1;
use spec::engine::{stream, stream_id, Monitor, StreamSpec, Tier};
use spec::json::show;
use spec::record::{skeleton_text, Recorder};
use spec::rng::{hash_bytes, Rng};
use spec::v1gen::{unknown_tail, v1_case, v1_streams};

pub struct C15;

/// Oracle-side class of an input (independent of ppp), for the coverage floor.
fn oracle_class(x: &[u8], rec: &mut Recorder) {
    if let spec::v1::V1Ref::Accept(acc) = spec::v1::v1_ref(x) {
        let line = &x[..acc.header_len];
        let body = std::str::from_utf8(&line[..line.len() - 2]).unwrap_or("");
        let after_kw = body.strip_prefix("PROXY ").unwrap_or("");
        let proto_field = after_kw.split(' ').next().unwrap_or("");
        let rest = &after_kw[proto_field.len().min(after_kw.len())..];
        let want = rest.strip_prefix(' ').unwrap_or(rest);
        rec.class(
            &format!(
                "oracle:{}|{}",
                proto_field,
                if rest.is_empty() {
                    "no-text"
                } else if want.is_empty() {
                    "one-space"
                } else if !want.is_ascii() {
                    "non-ascii-text"
                } else if want.starts_with(' ') {
                    "multi-space"
                } else {
                    "text"
                }
            ),
            || show(line, 120),
        );
        if line.len() >= 105 {
            rec.class("oracle:line-at-limit", || show(line, 120));
        }
    }
}

pub fn judge(x: &[u8], rec: &mut Recorder) {
    oracle_class(x, rec);
    // the header as returned by each entry point: try_from(&[u8]) (kept borrowed-then-owned),
    // try_from(&str), str::parse::<Header>()
    let mut any = false;
    for entry in 0..6 {
        let parsed = guard(|| match entry {
            0 => v1::Header::try_from(x).ok().map(|h| h.to_owned()),
            1 => std::str::from_utf8(x).ok().and_then(|s| v1::Header::try_from(s).ok()).map(|h| h.clone().to_owned()),
            2 => std::str::from_utf8(x).ok().and_then(|s| s.parse::<v1::Header<'static>>().ok()),
            // Clone::clone_from into a long-lived owned header of another kind (TCP4 / UNKNOWN),
            // from an owned and from a borrowed source
            3 => v1::Header::try_from(x).ok().map(|h| {
                let mut slot = crate::c03::OTHER_V1.with(|o| o.clone());
                slot.clone_from(&h.to_owned());
                slot
            }),
            4 => v1::Header::try_from(x).ok().map(|h| {
                let mut slot = v1::Header::new("PROXY UNKNOWN stale text\r\n", v1::Addresses::Unknown).to_owned();
                slot.clone_from(&h.to_owned());
                slot
            }),
            _ => v1::Header::try_from(x).ok().map(|h| {
                let mut slot = crate::c03::OTHER_V1.with(|o| o.clone());
                slot.clone_from(&h);
                slot.to_owned()
            }),
        });
        rec.event();
        if let Ok(Some(h)) = parsed {
            any = true;
            judge_header(x, &h, ["try_from(&[u8])", "try_from(&str)", "parse::<Header>", "clone_from(owned)->tcp4-slot", "clone_from(owned)->unknown-slot", "clone_from(borrowed)"][entry], rec);
        }
    }
    rec.case(hash_bytes(x), any);
}

fn judge_header(x: &[u8], h: &v1::Header<'static>, via: &str, rec: &mut Recorder) {
    let text = h.header.to_string();
    let viol = |rec: &mut Recorder, rule: &str, d: String| {
        rec.violation(&format!("{}:{}", rule, via), enc_case("v1", x), skeleton_text(x), format!("{} (header from {}) on accepted header {:?}: {}", rule, via, show(text.as_bytes(), 140), d));
    };
    // the line as the input has it
    let cr = x.iter().position(|&b| b == b'\r');
    let line: &[u8] = match cr {
        Some(i) if i + 1 < x.len() && x[i + 1] == b'\n' => &x[..i + 2],
        _ => {
            viol(rec, "header-not-a-crlf-line", "the accepted input has no CRLF-terminated first line to compare the views with".into());
            // still exercise the views: they must return
            for (name, r) in [("protocol", guard(|| h.protocol().to_string())), ("addresses_str", guard(|| h.addresses_str().to_string()))] {
                rec.event();
                if let Err(m) = r {
                    viol(rec, &format!("panic:{}", name), m);
                }
            }
            return;
        }
    };
    let line_s = match std::str::from_utf8(line) {
        Ok(s) => s,
        Err(_) => {
            // the accepted line is not valid UTF-8 (C01's subject): whatever the header holds, the
            // text it reports and prints cannot be the line; the byte-level identities still apply
            let d = guard(|| (h.to_string(), format!("PROXY {}{}{}\r\n", h.protocol(), if h.addresses_str().is_empty() && line.len() <= 15 { "" } else { " " }, h.addresses_str())));
            rec.event();
            match d {
                Err(m) => viol(rec, "panic:display", m),
                Ok((d, re)) => {
                    if d.as_bytes() != line || text.as_bytes() != line {
                        viol(rec, "display", format!("to_string() = {:?}, header = {:?}, the (non-UTF-8) line is {:?}", d, text, show(line, 140)));
                    }
                    if re.as_bytes() != line {
                        viol(rec, "reassembly", format!("PROXY + SP + protocol + separator + addresses_str + CRLF = {:?}, the (non-UTF-8) line is {:?}", re, show(line, 140)));
                    }
                }
            }
            return;
        }
    };
    let body = &line_s[..line_s.len() - 2];
    // second field of the line
    let after_kw = body.strip_prefix("PROXY ").unwrap_or("");
    let proto_field = after_kw.split(' ').next().unwrap_or("");
    let rest = &after_kw[proto_field.len().min(after_kw.len())..]; // text between the keyword and CRLF
    let want_addr_str = rest.strip_prefix(' ').unwrap_or(rest);
    let p = guard(|| h.protocol().to_string());
    let a = guard(|| h.addresses_str().to_string());
    let d = guard(|| h.to_string());
    rec.events(3);
    let kind_kw = match a1(&h.addresses) {
        A1::Unknown => "UNKNOWN",
        A1::Tcp4 { .. } => "TCP4",
        A1::Tcp6 { .. } => "TCP6",
    };
    match &p {
        Err(m) => viol(rec, "panic:protocol", m.clone()),
        Ok(p) => {
            if p != proto_field {
                viol(rec, "protocol", format!("protocol() = {:?}, second field of the line is {:?}", p, proto_field));
            }
            if p != kind_kw {
                viol(rec, "protocol-kind", format!("protocol() = {:?} but the decoded addresses are {}", p, kind_kw));
            }
        }
    }
    match &a {
        Err(m) => viol(rec, "panic:addresses_str", m.clone()),
        Ok(a) => {
            if a != want_addr_str {
                viol(rec, "addresses_str", format!("addresses_str() = {:?}, the line has {:?} between keyword and CRLF", a, want_addr_str));
            }
        }
    }
    match &d {
        Err(m) => viol(rec, "panic:display", m.clone()),
        Ok(d) => {
            if d.as_bytes() != line || text.as_bytes() != line {
                viol(rec, "display", format!("to_string() = {:?}, header = {:?}, line = {:?}", d, text, show(line, 140)));
            }
        }
    }
    if let (Ok(p), Ok(a)) = (&p, &a) {
        let sep = if rest.is_empty() { "" } else { " " };
        let re = format!("PROXY {}{}{}\r\n", p, sep, a);
        if re.as_bytes() != line {
            viol(rec, "reassembly", format!("PROXY + SP + protocol + separator + addresses_str + CRLF = {:?}, the line is {:?}", re, show(line, 140)));
        } else {
            rec.class("reassembled-identical", || show(line, 120));
        }
    }
}

impl Monitor for C15 {
    fn id(&self) -> &'static str {
        "C15"
    }
    fn rule(&self) -> &'static str {
        "cases = inputs of the v1 workload plus UNKNOWN lines with empty / one-space / multi-space / LF-containing / NUL-containing / non-ASCII-ending / 100-107-byte text; for every input the implementation accepts, protocol(), addresses_str() and Display are compared with string surgery on the raw input line (second field; text between keyword and CRLF minus one space; reassembly PROXY+SP+protocol+sep+addresses_str+CRLF = line = header = to_string()), and the protocol keyword with the variant of the decoded addresses; non-trivial = accepted input; distinct = distinct inputs"
    }
    fn streams(&self, tier: Tier) -> Vec<StreamSpec> {
        let mut s = v1_streams(tier, 4_000);
        s.push(stream("c15-unknown", tier.n(100, 400_000, 40_000_000)));
        s
    }
    fn run_case(&self, stream: &str, idx: u64, seed: u64, rec: &mut Recorder) {
        if stream == "c15-unknown" {
            let mut rng = Rng::for_case(seed, stream_id(stream), idx);
            let mut v = format!("PROXY UNKNOWN{}\r\n", unknown_tail(&mut rng)).into_bytes();
            if rng.chance(1, 4) {
                v.extend_from_slice(b"payload");
            }
            judge(&v, rec);
        } else {
            let x = v1_case(stream, idx, seed);
            spec::sib::run_v1(&x, idx, 4, |x| judge(x, rec));
        }
    }
    fn floor(&self, tier: Tier) -> Vec<&'static str> {
        if tier == Tier::Miri {
            return vec!["oracle:UNKNOWN|no-text", "oracle:TCP4|text"];
        }
        vec![
            "oracle:UNKNOWN|no-text",
            "oracle:UNKNOWN|one-space",
            "oracle:UNKNOWN|multi-space",
            "oracle:UNKNOWN|non-ascii-text",
            "oracle:UNKNOWN|text",
            "oracle:TCP4|text",
            "oracle:TCP6|text",
            "oracle:line-at-limit",
        ]
    }
    fn replay(&self, case: &str, rec: &mut Recorder) {
        if let Some((_, bytes)) = dec_case(case) {
            judge(&bytes, rec);
        }
    }
}
