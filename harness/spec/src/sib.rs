//! Call *histories* around a generated input.
//!
//! Every entry point of `ppp` is specified as a pure function of its arguments, so the result for
//! an input must not depend on what the same thread parsed before, or on where the bytes live.
//! A monitor that feeds unrelated random inputs one after the other hardly ever produces the
//! sequences on which an (accidentally) stateful implementation goes wrong: a per-thread memo or
//! "resume" hint keyed by something too weak - buffer address, length, a prefix, a folded
//! checksum, a case-insensitive comparison - needs two *related* inputs in a row, usually in the
//! same buffer, as a server that reuses its receive buffer produces them.
//!
//! The functions here return, for one generated input `x`, a short sequence of related inputs
//! (always containing `x` itself).  The monitors run the whole sequence through their ordinary
//! judge - every element is compared with the oracle like any other case - at one and the same
//! buffer address (`engine::placed_seq`).  Nothing about the oracles changes; this is workload.

use crate::rng::Rng;

fn first_cr(x: &[u8]) -> Option<usize> {
    x.iter().position(|&b| b == b'\r')
}

fn flip_case(x: &[u8], upto: usize) -> Vec<u8> {
    let mut v = x.to_vec();
    for b in v[..upto.min(x.len())].iter_mut() {
        if b.is_ascii_lowercase() {
            *b = b.to_ascii_uppercase();
        } else if b.is_ascii_uppercase() {
            *b = b.to_ascii_lowercase();
        }
    }
    v
}

/// A well-formed TCP4 line of exactly `len` bytes (32..=56), CRLF included.
pub fn tcp4_line_of_len(len: usize, rng: &mut Rng) -> Option<Vec<u8>> {
    if !(32..=56).contains(&len) {
        return None;
    }
    let mut extra = len - 32;
    // eight octets of 1..3 digits, two ports of 1..5 digits
    let mut od = [1usize; 8];
    let mut pd = [1usize; 2];
    while extra > 0 {
        let k = rng.below(10) as usize;
        if k < 8 {
            if od[k] < 3 {
                od[k] += 1;
                extra -= 1;
            }
        } else if pd[k - 8] < 5 {
            pd[k - 8] += 1;
            extra -= 1;
        }
    }
    let octet = |d: usize, rng: &mut Rng| -> String {
        match d {
            1 => rng.range(1, 9).to_string(),
            2 => rng.range(10, 99).to_string(),
            _ => rng.range(100, 255).to_string(),
        }
    };
    let port = |d: usize, rng: &mut Rng| -> String {
        let lo = 10u64.pow(d as u32 - 1);
        let hi = (10u64.pow(d as u32) - 1).min(65535);
        rng.range(lo, hi).to_string()
    };
    let a: Vec<String> = (0..4).map(|i| octet(od[i], rng)).collect();
    let b: Vec<String> = (4..8).map(|i| octet(od[i], rng)).collect();
    let s = format!("PROXY TCP4 {} {} {} {}\r\n", a.join("."), b.join("."), port(pd[0], rng), port(pd[1], rng));
    debug_assert_eq!(s.len(), len);
    Some(s.into_bytes())
}

/// History around a v1 (text) input.
pub fn v1_history(x: &[u8], salt: u64) -> Vec<Vec<u8>> {
    let mut rng = Rng::new(salt ^ 0x51B1_1465);
    let rng = &mut rng;
    let mut h: Vec<Vec<u8>> = Vec::new();
    let cr = first_cr(x);
    // (1) a receive buffer that held a CR-free, still incomplete line of n bytes is refilled with
    //     x: n lies beyond x's first CR, and the byte at n-1 is the same in both
    if let Some(p) = cr {
        let hi = x.len().min(106);
        if hi > p + 1 {
            let n = rng.range(p as u64 + 2, hi as u64) as usize;
            let mut y = x[..n].to_vec();
            for b in y[..n - 1].iter_mut() {
                if *b == b'\r' || *b == b'\n' {
                    *b = b'A';
                }
            }
            if y[n - 1] == b'\r' {
                y[n - 1] = b'B';
            }
            h.push(y);
        } else if p + 2 <= 100 && rng.coin() {
            // x has nothing after its line: use x + payload instead, after a longer CR-free fill
            let mut z = x.to_vec();
            z.extend_from_slice(b"GET /index.html HTTP/1.1\r\nHost: example\r\n");
            let n = rng.range(p as u64 + 2, z.len().min(106) as u64) as usize;
            let mut y = z[..n].to_vec();
            for b in y.iter_mut() {
                if *b == b'\r' || *b == b'\n' {
                    *b = b'A';
                }
            }
            h.push(y);
            h.push(z);
        }
    } else if !x.is_empty() && x.len() < 107 && rng.coin() {
        // x itself is CR-free (an unfinished text header): the buffer is refilled with a binary
        // header at least as long - complete, then cut short
        h.push(x.to_vec());
        let l = x.len().saturating_sub(16) + rng.below(20) as usize;
        let mut b = crate::v2::SIG.to_vec();
        b.extend_from_slice(&[0x21, 0x00, (l >> 8) as u8, l as u8]);
        b.extend(rng.bytes(l));
        h.push(b.clone());
        h.push(x.to_vec());
        b[15] = b[15].wrapping_add(9);
        if b[15] >= 9 {
            h.push(b);
            h.push(x.to_vec());
        }
    } else if !x.is_empty() && x.len() < 107 {
        // x itself is CR-free: follow it by the same bytes with a CR early on
        h.push(x.to_vec());
        let mut z = x.to_vec();
        let at = rng.below(z.len() as u64) as usize;
        z[at] = b'\r';
        z.extend_from_slice(b"\nGET / HTTP/1.1\r\n");
        h.push(z);
    }
    h.push(x.to_vec());
    let line_len = cr.map(|p| (p + 2).min(x.len())).unwrap_or(x.len());
    // (2) the same line in the other letter case (a memo that compares case-insensitively)
    if x[..line_len].iter().any(|b| b.is_ascii_alphabetic()) {
        h.push(flip_case(x, line_len));
        if rng.coin() {
            // only the keywords
            let mut v = x.to_vec();
            let kw_end = x.iter().take(line_len).enumerate().filter(|(_, &b)| b == b' ').map(|(i, _)| i).nth(1).unwrap_or(line_len.min(13));
            for b in v[..kw_end.min(line_len)].iter_mut() {
                *b = b.to_ascii_lowercase();
            }
            h.push(v);
        }
    }
    if let Some(p) = cr {
        // (3) the line extended by two more digits, unterminated and terminated (a memo that
        //     compares a prefix and a length but not the terminator)
        if p > 0 && x[p - 1].is_ascii_digit() {
            h.push(x.to_vec());
            let mut v = x[..p].to_vec();
            v.push(b'0' + rng.below(10) as u8);
            v.push(b'0' + rng.below(10) as u8);
            h.push(v.clone());
            v.extend_from_slice(b"\r\n");
            h.push(v);
        }
        // (4) other content of the same length at the same place: an UNKNOWN line for a TCP
        //     line, a TCP4 line (or another UNKNOWN line) for an UNKNOWN line
        let l = p + 2;
        h.push(x.to_vec());
        if x.len() >= l && x[..p].starts_with(b"PROXY TCP") && l >= 15 {
            let mut v = b"PROXY UNKNOWN".to_vec();
            if l > 15 {
                v.push(b' ');
                while v.len() < l - 2 {
                    v.push(b'a' + rng.below(26) as u8);
                }
            }
            v.extend_from_slice(b"\r\n");
            v.extend_from_slice(&x[l..]);
            h.push(v);
        } else if x.len() >= l && x[..p].starts_with(b"PROXY UNKNOWN") {
            if let Some(mut v) = tcp4_line_of_len(l, rng) {
                v.extend_from_slice(&x[l..]);
                h.push(v);
            } else if p > 16 {
                let mut v = x.to_vec();
                let at = 14 + rng.below((p - 14) as u64) as usize;
                v[at] = if v[at] == b'q' { b'z' } else { b'q' };
                h.push(v);
            }
        }
    }
    // (4b) a change that a checksum-like fingerprint of the line does not see: the same XOR delta
    //      on two characters 1 / 2 / 4 / 8 apart, or +1 / -1 on two neighbours
    if line_len >= 20 {
        let dist = *rng.pick(&[1usize, 2, 4, 8, 8]);
        let lo = 6;
        let hi = line_len.saturating_sub(2 + dist);
        if hi > lo {
            let i = rng.range(lo as u64, hi as u64 - 1) as usize;
            let mut v = x.to_vec();
            let ok = |b: u8| b.is_ascii_alphanumeric() || b == b'.' || b == b':';
            if ok(v[i]) && ok(v[i + dist]) {
                if rng.chance(3, 4) {
                    let d = *rng.pick(&[0x08u8, 0x01, 0x02, 0x04]);
                    v[i] ^= d;
                    v[i + dist] ^= d;
                } else {
                    v[i] = v[i].wrapping_add(1);
                    v[i + dist] = v[i + dist].wrapping_sub(1);
                }
                if ok(v[i]) && ok(v[i + dist]) {
                    h.push(x.to_vec());
                    h.push(v);
                }
            }
        }
    }
    // (5) and x once more: the answer must be the same as the first time
    h.push(x.to_vec());
    h
}

fn is_v2(x: &[u8]) -> bool {
    x.len() >= 16 && x[..12] == crate::v2::SIG
}

/// History around a v2 (binary) input.
pub fn v2_history(x: &[u8], salt: u64) -> Vec<Vec<u8>> {
    let mut rng = Rng::new(salt ^ 0x0B1A_A2D2);
    let rng = &mut rng;
    let mut h: Vec<Vec<u8>> = Vec::new();
    if x.len() >= 8 && rng.coin() {
        // the buffer held an unfinished text header before
        let t = b"PROXY TCP4 127.0.0.1 127.0.0.2 4";
        h.push(t[..t.len().min(x.len())].to_vec());
    }
    h.push(x.to_vec());
    if !is_v2(x) {
        if x.len() >= 4 {
            // same place, same length, other content
            let mut v = x.to_vec();
            let at = rng.below(v.len() as u64) as usize;
            v[at] ^= 1 << rng.below(8);
            h.push(v);
            h.push(x.to_vec());
        }
        return h;
    }
    let fam = x[13] >> 4;
    let (alen, half) = match fam {
        1 => (12usize, 4usize),
        2 => (36, 16),
        3 => (216, 108),
        _ => (0, 0),
    };
    let have = x.len() - 16;
    // every element is derived from the one before it, so that each consecutive pair is related
    let orig = x;
    let mut cur = x.to_vec();
    if alen > 0 && have >= alen {
        // (1) source and destination address exchanged, ports kept (any order-insensitive fold of
        //     the block - xor, sum - stays the same)
        let mut v = cur.clone();
        for i in 0..half {
            v.swap(16 + i, 16 + half + i);
        }
        if v != cur {
            h.push(v.clone());
            cur = v;
        }
        // (2) only the ports differ
        if fam != 3 {
            let mut v = cur.clone();
            let at = 16 + 2 * half + rng.below(4) as usize;
            v[at] ^= 1 << rng.below(8);
            h.push(v.clone());
            cur = v;
        }
        // (3) an xor-preserving change: the same delta applied to two bytes 8 (or 4) apart
        let step = if rng.coin() { 8 } else { 4 };
        if alen > step {
            let mut v = cur.clone();
            let i = 16 + rng.below((alen - step) as u64) as usize;
            let d = 1 + rng.below(255) as u8;
            v[i] ^= d;
            v[i + step] ^= d;
            h.push(v.clone());
            cur = v;
        }
        // (4) two 8-byte words exchanged
        if alen >= 16 {
            let words = alen / 8;
            let a = rng.below(words as u64) as usize;
            let mut b = rng.below(words as u64) as usize;
            if a == b {
                b = (b + 1) % words;
            }
            let mut v = cur.clone();
            for k in 0..8 {
                v.swap(16 + 8 * a + k, 16 + 8 * b + k);
            }
            if v != cur {
                h.push(v.clone());
                cur = v;
            }
        }
        // (4b) a sum-preserving change of two bytes
        if alen >= 2 {
            let mut v = cur.clone();
            let i = 16 + rng.below((alen - 1) as u64) as usize;
            v[i] = v[i].wrapping_add(1);
            v[i + 1] = v[i + 1].wrapping_sub(1);
            h.push(v.clone());
            cur = v;
        }
    }
    let x = &cur[..];
    // (5) same place and length, other declared length (a truncated header whose length field is
    //     rewritten: still truncated with other counts, or complete now)
    let declared = u16::from_be_bytes([x[14], x[15]]) as usize;
    if have < declared || rng.chance(1, 4) {
        let mut v = x.to_vec();
        let nl = match rng.below(3) {
            0 => have,
            1 => have + 1 + rng.below(40) as usize,
            _ => rng.below(have as u64 + 1) as usize,
        }
        .min(65535);
        v[14] = (nl >> 8) as u8;
        v[15] = nl as u8;
        if v != x {
            h.push(v);
        }
    }
    // (6) same fixed part and length, payload rewritten
    if have > 0 {
        let mut v = x.to_vec();
        let n = v.len();
        let from = 16 + rng.below(have as u64) as usize;
        let to = (from + 1 + rng.below(24) as usize).min(n);
        rng.fill(&mut v[from..to]);
        if v != x {
            h.push(v);
        }
    }
    h.push(orig.to_vec());
    h
}

/// History around a TLV section.
pub fn tlv_history(s: &[u8], salt: u64) -> Vec<Vec<u8>> {
    let mut rng = Rng::new(salt ^ 0x7177_0001);
    let rng = &mut rng;
    let mut h: Vec<Vec<u8>> = vec![s.to_vec()];
    if s.len() >= 6 {
        // same length, same beginning, a later TLV now overruns the section / is cut short
        let (items, _) = crate::v2::tlv_ref(s);
        let later: Vec<usize> = items.iter().map(|it| it.start).filter(|&st| st > s.len().min(32) || (s.len() <= 40 && st > 0)).collect();
        if !later.is_empty() {
            let st = *rng.pick(&later[..]);
            let mut v = s.to_vec();
            match rng.below(3) {
                0 => {
                    v[st + 1] = 0xFF;
                    v[st + 2] = 0xFF;
                }
                1 => v[st + 2] = v[st + 2].wrapping_add(1 + rng.below(5) as u8),
                _ => v[st + 1] = v[st + 1].wrapping_add(1),
            }
            h.push(v);
        }
        // same length and beginning, last bytes rewritten
        let mut v = s.to_vec();
        let n = v.len();
        let from = n - 1 - rng.below((n / 2) as u64) as usize;
        rng.fill(&mut v[from..]);
        if v != s {
            h.push(v);
        }
        h.push(s.to_vec());
    }
    h
}

// ---------------------------------------------------------------------------------------------
// drivers: run `f` on x alone (placed at an index-dependent alignment) or, for one case in
// `one_in`, on the whole history around x at one and the same address

pub fn run_v1(x: &[u8], idx: u64, one_in: u64, mut f: impl FnMut(&[u8])) {
    if let Some((others, _)) = crate::collide::v1_partners(x) {
        return run_collision(x, &others, idx, f);
    }
    if !crate::engine::small() && crate::engine::with_history(idx, one_in) {
        let h = v1_history(x, idx);
        crate::engine::placed_seq(&h, idx, |y| f(y));
    } else {
        crate::engine::placed(x, idx, |y| f(y));
    }
}

/// `x` right after each input that shares a fingerprint with it: in one refilled buffer, and in
/// two unrelated ones.
fn run_collision(x: &[u8], others: &[&[u8]], idx: u64, mut f: impl FnMut(&[u8])) {
    for o in others {
        if idx % 4 < 2 {
            crate::engine::placed_seq(&[o.to_vec(), x.to_vec()], idx, |y| f(y));
        } else {
            let copy = o.to_vec();
            f(&copy);
            crate::engine::placed(x, idx, |y| f(y));
        }
    }
}

pub fn run_v2(x: &[u8], idx: u64, one_in: u64, mut f: impl FnMut(&[u8])) {
    if let Some((others, _)) = crate::collide::v2_partners(x) {
        return run_collision(x, &others, idx, f);
    }
    if !crate::engine::small() && x.len() <= 4096 && crate::engine::with_history(idx, one_in) {
        let h = v2_history(x, idx);
        crate::engine::placed_seq(&h, idx / 3, |y| f(y));
    } else {
        crate::engine::placed(x, idx / 3, |y| f(y));
    }
}

pub fn run_tlv(x: &[u8], idx: u64, one_in: u64, mut f: impl FnMut(&[u8])) {
    if !crate::engine::small() && x.len() <= 4096 && crate::engine::with_history(idx, one_in) {
        let h = tlv_history(x, idx);
        crate::engine::placed_seq(&h, idx / 5, |y| f(y));
    } else {
        crate::engine::placed(x, idx / 5, |y| f(y));
    }
}


// ---------------------------------------------------------------------------------------------
// two-pass drivers, for judges that make several calls into the crate per element: hidden state
// that one call leaves behind and the next call of the same judge clears again (a "pending
// header" slot that a success resets, say) never shows between the elements of a history. The
// first pass therefore visits every element with `light = true`, where the judge makes exactly
// one call (its primary entry point) and judges that; the second pass is the ordinary one.

fn two_pass(h: &[Vec<u8>], salt: u64, mut f: impl FnMut(&[u8], bool)) {
    crate::engine::placed_seq(h, salt, |y| f(y, true));
    crate::engine::placed_seq(h, salt, |y| f(y, false));
}

pub fn run_v1_two_pass(x: &[u8], idx: u64, one_in: u64, mut f: impl FnMut(&[u8], bool)) {
    if let Some((others, _)) = crate::collide::v1_partners(x) {
        for o in others {
            two_pass(&[o.to_vec(), x.to_vec()], idx, &mut f);
        }
    } else if !crate::engine::small() && crate::engine::with_history(idx, one_in) {
        two_pass(&v1_history(x, idx), idx, f);
    } else {
        crate::engine::placed(x, idx, |y| f(y, false));
    }
}

pub fn run_v2_two_pass(x: &[u8], idx: u64, one_in: u64, mut f: impl FnMut(&[u8], bool)) {
    if let Some((others, _)) = crate::collide::v2_partners(x) {
        for o in others {
            two_pass(&[o.to_vec(), x.to_vec()], idx / 3, &mut f);
        }
    } else if !crate::engine::small() && x.len() <= 4096 && crate::engine::with_history(idx, one_in) {
        two_pass(&v2_history(x, idx), idx / 3, f);
    } else {
        crate::engine::placed(x, idx / 3, |y| f(y, false));
    }
}
