//! Deterministic pseudo-random numbers (splitmix64).  Every generated case is a function of
//! (VERIF_SEED, stream id, case index) only, so a case can be regenerated without replaying the
//! ones before it and does not depend on how many threads ran.

#[derive(Clone, Debug)]
pub struct Rng(u64);

pub fn mix(mut z: u64) -> u64 {
    z = z.wrapping_add(0x9E37_79B9_7F4A_7C15);
    z = (z ^ (z >> 30)).wrapping_mul(0xBF58_476D_1CE4_E5B9);
    z = (z ^ (z >> 27)).wrapping_mul(0x94D0_49BB_1331_11EB);
    z ^ (z >> 31)
}

impl Rng {
    pub fn new(seed: u64) -> Self {
        Rng(mix(seed))
    }

    /// The generator of case `idx` of stream `stream` under `seed`.
    pub fn for_case(seed: u64, stream: u64, idx: u64) -> Self {
        Rng(mix(mix(seed) ^ mix(stream.wrapping_mul(0xA24B_AED4_963E_E407)) ^ mix(idx ^ 0x5851_F42D_4C95_7F2D)))
    }

    #[inline]
    pub fn next(&mut self) -> u64 {
        self.0 = self.0.wrapping_add(0x9E37_79B9_7F4A_7C15);
        let mut z = self.0;
        z = (z ^ (z >> 30)).wrapping_mul(0xBF58_476D_1CE4_E5B9);
        z = (z ^ (z >> 27)).wrapping_mul(0x94D0_49BB_1331_11EB);
        z ^ (z >> 31)
    }

    /// Uniform in `0..n` (n > 0).
    #[inline]
    pub fn below(&mut self, n: u64) -> u64 {
        debug_assert!(n > 0);
        ((self.next() as u128 * n as u128) >> 64) as u64
    }

    #[inline]
    pub fn range(&mut self, lo: u64, hi_inclusive: u64) -> u64 {
        lo + self.below(hi_inclusive - lo + 1)
    }

    #[inline]
    pub fn chance(&mut self, num: u64, den: u64) -> bool {
        self.below(den) < num
    }

    #[inline]
    pub fn coin(&mut self) -> bool {
        self.next() & 1 == 1
    }

    #[inline]
    pub fn pick<'a, T>(&mut self, xs: &'a [T]) -> &'a T {
        &xs[self.below(xs.len() as u64) as usize]
    }

    pub fn fill(&mut self, buf: &mut [u8]) {
        let mut chunks = buf.chunks_exact_mut(8);
        for c in &mut chunks {
            c.copy_from_slice(&self.next().to_le_bytes());
        }
        let rest = chunks.into_remainder();
        if !rest.is_empty() {
            let v = self.next().to_le_bytes();
            let n = rest.len();
            rest.copy_from_slice(&v[..n]);
        }
    }

    pub fn bytes(&mut self, n: usize) -> Vec<u8> {
        let mut v = vec![0u8; n];
        self.fill(&mut v);
        v
    }

    pub fn u8(&mut self) -> u8 {
        self.next() as u8
    }
    pub fn u16(&mut self) -> u16 {
        self.next() as u16
    }
}

/// FNV-1a, used for stream ids and for the distinct-case sets.
pub fn hash_bytes(bytes: &[u8]) -> u64 {
    let mut h: u64 = 0xcbf2_9ce4_8422_2325;
    for &b in bytes {
        h ^= b as u64;
        h = h.wrapping_mul(0x0000_0100_0000_01B3);
    }
    mix(h ^ bytes.len() as u64)
}
