//! Minimal JSON value + writer (no third-party crates are available offline for the harness,
//! and none is needed).

#[derive(Clone, Debug)]
pub enum Json {
    Null,
    Bool(bool),
    Int(i128),
    Num(f64),
    Str(String),
    Arr(Vec<Json>),
    Obj(Vec<(String, Json)>),
}

impl Json {
    pub fn obj() -> Json {
        Json::Obj(Vec::new())
    }
    pub fn set(mut self, k: &str, v: Json) -> Json {
        if let Json::Obj(ref mut o) = self {
            o.push((k.to_string(), v));
        }
        self
    }
    pub fn put(&mut self, k: &str, v: Json) {
        if let Json::Obj(ref mut o) = self {
            o.push((k.to_string(), v));
        }
    }
    pub fn s(v: &str) -> Json {
        Json::Str(v.to_string())
    }
    pub fn u(v: u64) -> Json {
        Json::Int(v as i128)
    }

    pub fn render(&self) -> String {
        let mut out = String::new();
        self.write(&mut out, 0);
        out
    }

    fn write(&self, out: &mut String, ind: usize) {
        match self {
            Json::Null => out.push_str("null"),
            Json::Bool(b) => out.push_str(if *b { "true" } else { "false" }),
            Json::Int(i) => out.push_str(&i.to_string()),
            Json::Num(f) => {
                if f.is_finite() {
                    out.push_str(&format!("{:.3}", f))
                } else {
                    out.push_str("null")
                }
            }
            Json::Str(s) => write_str(out, s),
            Json::Arr(a) => {
                if a.is_empty() {
                    out.push_str("[]");
                    return;
                }
                out.push_str("[\n");
                for (i, v) in a.iter().enumerate() {
                    out.push_str(&" ".repeat(ind + 1));
                    v.write(out, ind + 1);
                    if i + 1 < a.len() {
                        out.push(',');
                    }
                    out.push('\n');
                }
                out.push_str(&" ".repeat(ind));
                out.push(']');
            }
            Json::Obj(o) => {
                if o.is_empty() {
                    out.push_str("{}");
                    return;
                }
                out.push_str("{\n");
                for (i, (k, v)) in o.iter().enumerate() {
                    out.push_str(&" ".repeat(ind + 1));
                    write_str(out, k);
                    out.push_str(": ");
                    v.write(out, ind + 1);
                    if i + 1 < o.len() {
                        out.push(',');
                    }
                    out.push('\n');
                }
                out.push_str(&" ".repeat(ind));
                out.push('}');
            }
        }
    }
}

fn write_str(out: &mut String, s: &str) {
    out.push('"');
    for c in s.chars() {
        match c {
            '"' => out.push_str("\\\""),
            '\\' => out.push_str("\\\\"),
            '\n' => out.push_str("\\n"),
            '\r' => out.push_str("\\r"),
            '\t' => out.push_str("\\t"),
            c if (c as u32) < 0x20 || c == '\u{7f}' => out.push_str(&format!("\\u{:04x}", c as u32)),
            c => out.push(c),
        }
    }
    out.push('"');
}

pub fn hex(bytes: &[u8]) -> String {
    const H: &[u8; 16] = b"0123456789abcdef";
    let mut s = String::with_capacity(bytes.len() * 2);
    for &b in bytes {
        s.push(H[(b >> 4) as usize] as char);
        s.push(H[(b & 15) as usize] as char);
    }
    s
}

pub fn unhex(s: &str) -> Option<Vec<u8>> {
    let b = s.as_bytes();
    if b.len() % 2 != 0 {
        return None;
    }
    let v = |c: u8| -> Option<u8> {
        match c {
            b'0'..=b'9' => Some(c - b'0'),
            b'a'..=b'f' => Some(c - b'a' + 10),
            b'A'..=b'F' => Some(c - b'A' + 10),
            _ => None,
        }
    };
    let mut out = Vec::with_capacity(b.len() / 2);
    for p in b.chunks(2) {
        out.push(v(p[0])? << 4 | v(p[1])?);
    }
    Some(out)
}

/// Printable rendering of a byte string for samples and reports (escapes like a Rust byte
/// string literal, truncated).
pub fn show(bytes: &[u8], max: usize) -> String {
    let mut s = String::new();
    for &b in bytes.iter().take(max) {
        match b {
            b'\r' => s.push_str("\\r"),
            b'\n' => s.push_str("\\n"),
            b'\\' => s.push_str("\\\\"),
            0x20..=0x7e => s.push(b as char),
            _ => s.push_str(&format!("\\x{:02x}", b)),
        }
    }
    if bytes.len() > max {
        s.push_str(&format!("...(+{} bytes)", bytes.len() - max));
    }
    s
}

/// Extracts the string value of a top-level-ish `"key": "value"` pair from JSON text written by
/// `render` (values used this way never contain quotes or backslashes: hex / op lists).
pub fn extract_str<'a>(text: &'a str, key: &str) -> Option<&'a str> {
    let pat = format!("\"{}\": \"", key);
    let start = text.find(&pat)? + pat.len();
    let end = text[start..].find('"')? + start;
    Some(&text[start..end])
}

/// Value of a numeric field of a flat JSON object written by `render`.
pub fn extract_u64(text: &str, key: &str) -> Option<u64> {
    let pat = format!("\"{}\": ", key);
    let start = text.find(&pat)? + pat.len();
    let digits: String = text[start..].chars().take_while(|c| c.is_ascii_digit()).collect();
    digits.parse().ok()
}
