//! Workload generators for the v1 (text) side.  Every case is a function of (seed, stream, idx).

use crate::engine::{exhaustive, stream, stream_id, StreamSpec, Tier};
use crate::rng::Rng;

// ---------------------------------------------------------------------------------------------
// value generators and formatters (independent of std::net's Display)

pub fn fmt_v4(a: [u8; 4]) -> String {
    format!("{}.{}.{}.{}", a[0], a[1], a[2], a[3])
}

pub fn groups_of(a: [u8; 16]) -> [u16; 8] {
    let mut g = [0u16; 8];
    for i in 0..8 {
        g[i] = u16::from_be_bytes([a[2 * i], a[2 * i + 1]]);
    }
    g
}

pub fn bytes_of(g: [u16; 8]) -> [u8; 16] {
    let mut a = [0u8; 16];
    for i in 0..8 {
        a[2 * i..2 * i + 2].copy_from_slice(&g[i].to_be_bytes());
    }
    a
}

#[derive(Clone, Copy, Debug, PartialEq, Eq)]
pub enum V6Style {
    /// RFC 5952: lower case, longest zero run (>= 2 groups) compressed
    Canon,
    /// eight groups, no compression, no padding
    Full,
    /// eight groups of four digits
    Padded,
    /// canonical, upper case
    Upper,
    /// "::" placed on some zero run that is not the canonical choice (possibly a single group)
    AltCompress,
    /// last 32 bits as a dotted quad, rest uncompressed
    DottedFull,
    /// last 32 bits as a dotted quad, zero run in the first six groups compressed
    DottedCompressed,
}

pub const V6_STYLES: [V6Style; 7] = [
    V6Style::Canon,
    V6Style::Full,
    V6Style::Padded,
    V6Style::Upper,
    V6Style::AltCompress,
    V6Style::DottedFull,
    V6Style::DottedCompressed,
];

fn zero_runs(g: &[u16]) -> Vec<(usize, usize)> {
    let mut runs = Vec::new();
    let mut i = 0;
    while i < g.len() {
        if g[i] == 0 {
            let s = i;
            while i < g.len() && g[i] == 0 {
                i += 1;
            }
            runs.push((s, i - s));
        } else {
            i += 1;
        }
    }
    runs
}

fn join_groups(g: &[u16], compress: Option<(usize, usize)>, pad: bool, upper: bool) -> String {
    let one = |v: u16| -> String {
        let s = if pad { format!("{:04x}", v) } else { format!("{:x}", v) };
        if upper {
            s.to_uppercase()
        } else {
            s
        }
    };
    match compress {
        None => g.iter().map(|&v| one(v)).collect::<Vec<_>>().join(":"),
        Some((s, l)) => {
            let head = g[..s].iter().map(|&v| one(v)).collect::<Vec<_>>().join(":");
            let tail = g[s + l..].iter().map(|&v| one(v)).collect::<Vec<_>>().join(":");
            format!("{}::{}", head, tail)
        }
    }
}

pub fn fmt_v6(g: [u16; 8], style: V6Style, rng: &mut Rng) -> String {
    let canon_run = |gs: &[u16]| -> Option<(usize, usize)> {
        let mut best: Option<(usize, usize)> = None;
        for r in zero_runs(gs) {
            if r.1 >= 2 && best.map_or(true, |b| r.1 > b.1) {
                best = Some(r);
            }
        }
        best
    };
    match style {
        V6Style::Canon => join_groups(&g, canon_run(&g), false, false),
        V6Style::Full => join_groups(&g, None, false, false),
        V6Style::Padded => join_groups(&g, None, true, false),
        V6Style::Upper => join_groups(&g, canon_run(&g), false, true),
        V6Style::AltCompress => {
            let runs = zero_runs(&g);
            if runs.is_empty() {
                return join_groups(&g, None, false, rng.coin());
            }
            let (s, l) = *rng.pick(&runs);
            // compress a sub-run of the chosen run
            let sub_l = rng.range(1, l as u64) as usize;
            let sub_s = s + rng.below((l - sub_l + 1) as u64) as usize;
            join_groups(&g, Some((sub_s, sub_l)), rng.coin(), rng.coin())
        }
        V6Style::DottedFull | V6Style::DottedCompressed => {
            let head = &g[..6];
            let q = [(g[6] >> 8) as u8, g[6] as u8, (g[7] >> 8) as u8, g[7] as u8];
            let compress = if style == V6Style::DottedCompressed { canon_run(head).or_else(|| zero_runs(head).first().copied()) } else { None };
            let h = join_groups(head, compress, false, false);
            match compress {
                Some((s, l)) if s + l == 6 => format!("{}{}", h, fmt_v4(q)),
                _ => format!("{}:{}", h, fmt_v4(q)),
            }
        }
    }
}

const OCTETS: [u8; 12] = [0, 1, 9, 10, 99, 100, 127, 199, 200, 249, 250, 255];

/// Semantically special IPv4 addresses (loopback, link-local, multicast, private, CGNAT, ...).
pub fn special_v4(rng: &mut Rng) -> [u8; 4] {
    let (x, y) = (rng.u8(), rng.u8());
    match rng.below(10) {
        0 => [127, 0, 0, 1],
        1 => [127, x, y, 1],
        2 => [169, 254, x, y],
        3 => [224, 0, 0, x],
        4 => [10, x, y, 1],
        5 => [192, 168, x, y],
        6 => [100, 64, x, y],
        7 => [172, 16, x, y],
        8 => [198, 51, 100, x],
        _ => [240, x, y, 255],
    }
}

/// Semantically special IPv6 addresses: IPv4-mapped / -compatible, link-local with and without
/// an embedded zone, multicast, NAT64, 6to4, ULA, documentation, loopback.  Code that "normalises"
/// one of these classes is a classic source of asymmetries between parser and builder.
pub fn special_v6(rng: &mut Rng, class: u64) -> [u16; 8] {
    let q = if rng.coin() { special_v4(rng) } else { rand_v4(rng) };
    let (hi, lo) = (u16::from_be_bytes([q[0], q[1]]), u16::from_be_bytes([q[2], q[3]]));
    let r = |rng: &mut Rng| rng.u16() | 1;
    match class % 12 {
        0 | 1 => [0, 0, 0, 0, 0, 0xffff, hi, lo],
        2 => [0, 0, 0, 0, 0, 0, hi, lo.max(2)],
        3 => [0xfe80, r(rng), 0, 0, r(rng), r(rng), r(rng), r(rng)],
        4 => [0xfe80, 0, 0, 0, r(rng), r(rng), r(rng), r(rng)],
        5 => [0xff02, 0, 0, 0, 0, 0, 0, 1 + (lo & 0xff)],
        6 => [0x64, 0xff9b, 0, 0, 0, 0, hi, lo],
        7 => [0x2002, hi, lo, 0, 0, 0, 0, 1],
        8 => [0xfc00 | (hi & 0x1ff), r(rng), r(rng), r(rng), 0, 0, 0, 1],
        9 => [0x2001, 0xdb8, 0, 0, 0, 0, hi, lo],
        10 => [0, 0, 0, 0, 0, 0, 0, 1],
        _ => [0xfe80, r(rng), 0, 0, 0, 0, 0, 1],
    }
}

pub fn rand_v4(rng: &mut Rng) -> [u8; 4] {
    let mut a = [0u8; 4];
    match rng.below(10) {
        0 => a = [0, 0, 0, 0],
        1 => a = [255, 255, 255, 255],
        2..=5 => {
            for x in a.iter_mut() {
                *x = *rng.pick(&OCTETS);
            }
        }
        _ => rng.fill(&mut a),
    }
    a
}

pub fn rand_v6(rng: &mut Rng) -> [u16; 8] {
    // every zero/non-zero shape is equally likely
    let mask = rng.below(256) as u8;
    let mode = rng.below(4);
    let mut g = [0u16; 8];
    for i in 0..8 {
        if mask & (1 << i) != 0 {
            g[i] = 0;
        } else {
            g[i] = match mode {
                0 => 1 + i as u16,
                1 => 0xffff - i as u16,
                2 => *rng.pick(&[1u16, 0xa, 0x10, 0xff, 0x100, 0xabc, 0x1000, 0xffff, 0xdead, 0xbeef]),
                _ => (rng.u16()).max(1),
            };
        }
    }
    if rng.chance(1, 16) {
        // IPv4-mapped / IPv4-compatible
        g[..5].copy_from_slice(&[0; 5]);
        g[5] = if rng.coin() { 0xffff } else { 0 };
    }
    g
}

pub const PORTS: [u16; 12] = [0, 1, 9, 10, 99, 100, 999, 1000, 9999, 10000, 65534, 65535];

pub fn rand_port(rng: &mut Rng) -> u16 {
    if rng.coin() {
        *rng.pick(&PORTS)
    } else {
        rng.u16()
    }
}

/// A (source, destination) pair of ports: distinct, except for 1 pair in 32 (a self-connection
/// is legal too, and code that special-cases it must not go unnoticed).
pub fn rand_port_pair(rng: &mut Rng) -> (u16, u16) {
    let a = rand_port(rng);
    if rng.chance(1, 32) {
        return (a, a);
    }
    let mut b = rand_port(rng);
    while b == a {
        b = rand_port(rng);
    }
    (a, b)
}

pub fn rand_v4_pair(rng: &mut Rng) -> ([u8; 4], [u8; 4]) {
    let special = rng.chance(1, 6);
    let a = if special { special_v4(rng) } else { rand_v4(rng) };
    if rng.chance(1, 32) {
        return (a, a);
    }
    let mut b = if special && rng.coin() { special_v4(rng) } else { rand_v4(rng) };
    while b == a {
        b = rand_v4(rng);
    }
    (a, b)
}

pub fn rand_v6_pair(rng: &mut Rng) -> ([u16; 8], [u16; 8]) {
    if rng.chance(1, 5) {
        // semantically special addresses; half of the time both from the same class
        let c = rng.below(12);
        let a = special_v6(rng, c);
        if rng.chance(1, 16) {
            return (a, a);
        }
        let mut b = match rng.below(4) {
            0 | 1 => special_v6(rng, c),
            2 => {
                let c2 = rng.below(12);
                special_v6(rng, c2)
            }
            _ => rand_v6(rng),
        };
        while b == a {
            b = rand_v6(rng);
        }
        return (a, b);
    }
    let a = rand_v6(rng);
    if rng.chance(1, 32) {
        return (a, a);
    }
    let mut b = rand_v6(rng);
    while b == a {
        b = rand_v6(rng);
    }
    (a, b)
}

/// A TCP6 line body whose total length (with CRLF) lands around the 107-byte limit: only
/// possible with zero-padded groups and/or the mixed `x:x:x:x:x:x:d.d.d.d` notation (45 bytes).
pub fn tcp6_near_limit(rng: &mut Rng) -> String {
    let long = |rng: &mut Rng| -> String {
        // every group four hex digits
        let g: Vec<String> = (0..8).map(|_| format!("{:04x}", rng.u16() | 0x1000)).collect();
        if rng.coin() {
            g.join(":")
        } else {
            let q = [rng.range(100, 255) as u8, rng.range(100, 255) as u8, rng.range(10, 255) as u8, rng.range(1, 255) as u8];
            format!("{}:{}", g[..6].join(":"), fmt_v4(q))
        }
    };
    let port = |rng: &mut Rng| -> String {
        let d = rng.range(1, 5);
        let lo = 10u64.pow(d as u32 - 1);
        let hi = (10u64.pow(d as u32) - 1).min(65535);
        rng.range(if d == 1 { 0 } else { lo }, hi).to_string()
    };
    let (mut sp, mut dp) = (port(rng), port(rng));
    if sp == dp {
        sp = "1".into();
        dp = "22".into();
    }
    format!("PROXY TCP6 {} {} {} {}", long(rng), long(rng), sp, dp)
}

/// Decorations of a VALID address that make it invalid (brackets, zone, prefix length, port,
/// sign, padding, surrounding control characters).
pub fn decorate_addr(rng: &mut Rng, addr: &str) -> String {
    match rng.below(12) {
        0 => format!("[{}]", addr),
        1 => format!("{}%1", addr),
        2 => format!("{}/32", addr),
        3 => format!("{}:80", addr),
        4 => format!("+{}", addr),
        5 => format!("0{}", addr),
        6 => format!("{}.", addr),
        7 => format!("{}\t", addr),
        8 => format!("[{}", addr),
        9 => format!("{}]", addr),
        10 => {
            let mut t = addr.to_string();
            t.push('\0');
            t
        }
        _ => format!("{}{}", addr, addr),
    }
}

/// A random string over characters that sit next to the digits in ASCII (and a few classics),
/// which the oracle confirms not to be a valid port.
pub fn random_bad_port(rng: &mut Rng) -> String {
    const AL: &[u8] = b"0123456789/:;<=>?@+-. _xXaAfF";
    loop {
        let n = rng.range(1, 6);
        let s: String = (0..n).map(|_| *rng.pick(AL) as char).collect();
        if !s.contains(' ') && crate::v1::parse_port(&s).is_err() {
            return s;
        }
    }
}

// ---------------------------------------------------------------------------------------------
// valid lines

/// Fields of a valid TCP4 / TCP6 line: [PROXY, proto, src, dst, sport, dport]
pub fn valid_tcp_fields(rng: &mut Rng, v6: bool) -> Vec<String> {
    let (sp, dp) = rand_port_pair(rng);
    if v6 {
        let (a, b) = rand_v6_pair(rng);
        let sa = *rng.pick(&V6_STYLES);
        let sb = if rng.coin() { sa } else { *rng.pick(&V6_STYLES) };
        vec![
            "PROXY".into(),
            "TCP6".into(),
            fmt_v6(a, sa, rng),
            fmt_v6(b, sb, rng),
            sp.to_string(),
            dp.to_string(),
        ]
    } else {
        let (a, b) = rand_v4_pair(rng);
        vec!["PROXY".into(), "TCP4".into(), fmt_v4(a), fmt_v4(b), sp.to_string(), dp.to_string()]
    }
}

const WORDS: [&str; 16] = [
    "a", "b", "foo", "1.2.3.4", "::1", "80", "65535", "TCP4", "PROXY", "UNKNOWN", "x-y_z", "0", "+1", "\n", "\t", "\u{0}",
];

/// The text after `PROXY UNKNOWN` (starts with a space when non-empty), no CR.
pub fn unknown_tail(rng: &mut Rng) -> String {
    match rng.below(14) {
        12 | 13 => {
            // any ASCII characters but CR (controls included), any length: whatever precedes the
            // CR, at whatever alignment
            let mut s = String::from(" ");
            for _ in 0..rng.below(40) {
                let c = if rng.chance(1, 3) { rng.below(128) as u8 } else { b'a' + rng.below(26) as u8 };
                if c != b'\r' {
                    s.push(c as char);
                }
            }
            s
        }
        0 => String::new(),
        1 => " ".into(),
        2 | 3 => {
            let k = rng.range(1, 12);
            let mut s = String::new();
            for _ in 0..k {
                s.push(' ');
                s.push_str(*rng.pick(&WORDS));
            }
            s
        }
        4 => {
            let mut s = String::new();
            for _ in 0..rng.range(1, 6) {
                for _ in 0..rng.range(1, 3) {
                    s.push(' ');
                }
                if rng.coin() {
                    s.push_str(*rng.pick(&WORDS));
                }
            }
            s
        }
        5 => (*rng.pick(&[" \n", " foo\nbar", " \n ", " x\n", " \n foo", " \n\n", " a \n"])).to_string(),
        6 => (*rng.pick(&[" é", " €uro", " 😀", " x é", " ü€😀", " 日本語", " a€", " €", " 😀😀", " \u{80}", " \u{7ff}", " \u{ffff}", " \u{10ffff}"])).to_string(),
        7 => (*rng.pick(&[" \u{0}", " \u{1}\u{2}", " a\u{0}b", " \u{7f}", " \t", " \u{b}\u{c}"])).to_string(),
        8 => {
            // padded so that the whole line (with CRLF) has 100..=107 bytes
            let total = rng.range(100, 107) as usize;
            let fill = total - "PROXY UNKNOWN".len() - 2;
            let mut s = String::from(" ");
            let c = *rng.pick(&['x', ' ', '0', ':']);
            while s.len() < fill {
                s.push(if rng.chance(1, 8) { ' ' } else { c });
            }
            s
        }
        9 => {
            let v6 = rng.coin();
            let f = valid_tcp_fields(rng, v6);
            format!(" {} {} {} {}", f[2], f[3], f[4], f[5])
        }
        10 => " ffff:ffff:ffff:ffff:ffff:ffff:ffff:ffff ffff:ffff:ffff:ffff:ffff:ffff:ffff:ffff 65535 65535".into(),
        _ => {
            // text ending in a multi-byte character, various lengths
            let mut s = String::from(" ");
            for _ in 0..rng.below(20) {
                s.push(*rng.pick(&['a', ' ', 'é', '€', '😀', '1']));
            }
            s.push(*rng.pick(&['é', '€', '😀']));
            s
        }
    }
}

/// A valid line body (no CRLF).
pub fn valid_body(rng: &mut Rng) -> String {
    if rng.chance(1, 24) {
        // long TCP6 spellings; only the ones that still fit the limit are valid
        let b = tcp6_near_limit(rng);
        if b.len() + 2 <= 107 {
            return b;
        }
    }
    match rng.below(10) {
        0..=2 => valid_tcp_fields(rng, false).join(" "),
        3..=6 => valid_tcp_fields(rng, true).join(" "),
        _ => format!("PROXY UNKNOWN{}", unknown_tail(rng)),
    }
}

/// A valid US-ASCII line body (for the streaming properties, which are about ASCII lines).
pub fn valid_ascii_body(rng: &mut Rng) -> String {
    loop {
        let b = valid_body(rng);
        if b.is_ascii() {
            return b;
        }
    }
}

// ---------------------------------------------------------------------------------------------
// invalid spellings per element (also the operator table of C12)

pub const BAD_KEYWORD: [&str; 14] = [
    "proxy", "Proxy", "PROX", "PROXYY", "PROXY\t", "", "P", "XPROXY", "PR0XY", "PROXY\u{0}", "PROXY\n", "\nPROXY", "PROXYPROXY", "ＰＲＯＸＹ",
];
pub const BAD_PROTOCOL: [&str; 16] = [
    "tcp4", "TCP", "TCP5", "TCP44", "TCP4x", "", "UNKNOW", "UNKNOWNN", "unknown", "UDP4", "TCP4\n", "T", "TCP6\u{0}", "TCP46", "4", "ＴＣＰ４",
];
pub const BAD_PORT: [&str; 30] = [
    "+80", "-1", "080", "00", "", "65536", "99999", "100000", "1e3", "0x50", "８０", "٨٠", "80\n", "\n80", "80\u{0}", "4294967376",
    "18446744073709551696", "65535.0", "-0", "+0", "+", "-", "0x0", "1_000", "0_0", "01", "000", "+65535", "65535\t", "six",
];
pub const BAD_V4: [&str; 34] = [
    "::ffff:1.2.3.4", "::ffff:102:304", "::FFFF:10.0.0.1", "::1.2.3.4", "0:0:0:0:0:ffff:1.2.3.4", "64:ff9b::1.2.3.4",
    "[1.2.3.4]", "1.2.3.4%1",
    "256.1.1.1", "1.2.3", "1.2.3.4.5", "01.2.3.4", "1.2.3.04", "1..3.4", "1.2.3.", ".1.2.3", "1.2.3.4x", "a.b.c.d", "::1", "1.2.3.-4", "+1.2.3.4",
    "1.2.3.4/8", "0x1.2.3.4", "1.2.3.256", "1.2.3.4:80", "999.999.999.999", "1,2,3,4", "١.٢.٣.٤", "", "1.2.3.0004", "127.1", "2130706433", "1.2.3.4\n",
    "1.2.3.4\u{0}",
];
pub const BAD_V6: [&str; 40] = [
    "fe80::1%eth0", "fe80::1%1", "fe80::%1", "fe80::abcd%wlan0", "FE80::1%lo", "ff02::1%2", "fe80::1%25eth0", "::1%0",
    "1:2:3:4:5:6:7:8:9", "1::2::3", "fffff::", "1:2:3:4:5:6:7", ":1:2:3:4:5:6:7", "1:2:3:4:5:6:7:", ":::", "1:::2", "g::1", "1.2.3.4", "::1.2.3",
    "::1.2.3.256", "::01.2.3.4", "1:2:3:4:5:6:7:1.2.3.4", "[::1]", "::1%eth0", "::1/128", "::ffff:1.2.3.4.5", "1.2.3.4::", "12345::", "", "::-1", "+::1",
    "0x1::", "1:2:3:4:5:6:7::8", "::1\n", "::\u{0}", "１::", ":", "1:2:3:4:5:6:1.2.3.4:8", "::1.2.3.4:5", "1:2:3:4:5:6:7:8::",
];

/// An invalid spelling for element `e` (0 keyword, 1 protocol, 2/3 addresses, 4/5 ports) of a
/// TCP line: from the fixed pools, or a decoration of the valid value, or a random near-miss.
/// A numeric field spelled as its value plus a multiple of 2^8 / 2^16 / 2^32 / 2^64: invalid, but
/// accepted by a hand-rolled digit loop whose accumulator wraps around.
pub fn wrapped_number(rng: &mut Rng, value: u64, octet: bool) -> String {
    let m: u128 = if octet {
        *rng.pick(&[1u128 << 8, 1 << 16, 1 << 32, 1 << 64, 3 << 8, 5 << 16])
    } else {
        *rng.pick(&[1u128 << 16, 1 << 32, 1 << 64, 3 << 16, 1 << 17])
    };
    (value as u128 + m).to_string()
}

pub fn bad_spelling(rng: &mut Rng, e: usize, v6: bool, valid: &str) -> String {
    if e >= 2 && rng.chance(1, 8) {
        if e >= 4 {
            if let Ok(p) = valid.parse::<u64>() {
                return wrapped_number(rng, p, false);
            }
        } else if !v6 {
            let mut o: Vec<String> = valid.split('.').map(|x| x.to_string()).collect();
            if o.len() == 4 {
                let i = rng.below(4) as usize;
                if let Ok(x) = o[i].parse::<u64>() {
                    o[i] = wrapped_number(rng, x, true);
                    return o.join(".");
                }
            }
        } else if let Some(pos) = valid.find(|c: char| c.is_ascii_hexdigit()) {
            // a hex group with a fifth digit: value + 0x10000
            let mut t = valid.to_string();
            t.insert(pos, *rng.pick(&['1', 'f', '2']));
            let end = t[pos..].find(|c: char| !c.is_ascii_hexdigit()).map(|k| pos + k).unwrap_or(t.len());
            if end - pos < 5 {
                let pad = "0".repeat(5 - (end - pos));
                t.insert_str(pos + 1, &pad);
            }
            return t;
        }
    }
    match e {
        0 => (*rng.pick(&BAD_KEYWORD)).to_string(),
        1 => (*rng.pick(&BAD_PROTOCOL)).to_string(),
        2 | 3 => match rng.below(3) {
            0 => decorate_addr(rng, valid),
            _ => {
                if v6 {
                    (*rng.pick(&BAD_V6)).to_string()
                } else {
                    (*rng.pick(&BAD_V4)).to_string()
                }
            }
        },
        _ => {
            if rng.coin() {
                random_bad_port(rng)
            } else {
                (*rng.pick(&BAD_PORT)).to_string()
            }
        }
    }
}

/// G-field: a valid TCP line with one structural or lexical fault.
pub fn faulty_body(rng: &mut Rng) -> String {
    let v6 = rng.coin();
    let mut f = valid_tcp_fields(rng, v6);
    let e = rng.below(6) as usize;
    match rng.below(10) {
        0..=5 => {
            f[e] = bad_spelling(rng, e, v6, &f[e]);
        }
        6 => {
            f.remove(e);
        }
        7 => {
            let d = f[e].clone();
            f.insert(e, d);
        }
        8 => {
            let w = (*rng.pick(&WORDS)).to_string();
            let pos = rng.below(7) as usize;
            f.insert(pos, w);
        }
        _ => {
            // address of the other family / swapped protocol keyword
            if e >= 2 && e <= 3 && rng.coin() {
                f[e] = if v6 { fmt_v4(rand_v4(rng)) } else { fmt_v6(rand_v6(rng), V6Style::Canon, rng) };
            } else if e >= 2 && e <= 3 {
                // both addresses of the other family, everything else in order
                for k in 2..=3 {
                    f[k] = if v6 { fmt_v4(rand_v4(rng)) } else { fmt_v6(rand_v6(rng), V6Style::Canon, rng) };
                }
            } else {
                f[1] = if v6 { "TCP4".into() } else { "TCP6".into() };
            }
        }
    }
    f.join(" ")
}

// ---------------------------------------------------------------------------------------------
// line endings and trailers

pub const ENDINGS: [&[u8]; 14] = [
    b"\r\n", b"\r", b"\n", b" \n", b"", b"\r\r\n", b"\n\r", b" \r\n", b"\r\n\r\n", b"\r \n", b" \r", b"\n\r\n", b"\r\0", b"\0\r\n",
];

pub fn trailers() -> Vec<Vec<u8>> {
    let mut v2 = crate::v2::SIG.to_vec();
    v2.extend_from_slice(&[0x21, 0x11, 0, 12, 1, 2, 3, 4, 5, 6, 7, 8, 0, 80, 1, 187]);
    vec![
        b"".to_vec(),
        b"GET / HTTP/1.1\r\nHost: x\r\n\r\n".to_vec(),
        b"PROXY TCP4 9.9.9.9 8.8.8.8 9 8\r\n".to_vec(),
        v2,
        b"\r".to_vec(),
        b"\n".to_vec(),
        b"\0".to_vec(),
        b" ".to_vec(),
        b"0".to_vec(),
        b"55".to_vec(),
        b"ff".to_vec(),
        b"\r\n".to_vec(),
        b" 1\r\n".to_vec(),
        b"\xff\xfe".to_vec(),
        b"\xc3".to_vec(),
        "€".repeat(50).into_bytes(),
        " é".repeat(70).into_bytes(),
    ]
}

/// Large trailers (used sparingly: they cost a copy each).
pub fn big_trailers() -> Vec<Vec<u8>> {
    vec![vec![b'x'; 4200], vec![0u8; 70_000], b"PROXY UNKNOWN\r\n".repeat(300)]
}

// ---------------------------------------------------------------------------------------------
// G-token: exhaustive token sequences and token edits

pub const TOKENS: [&str; 12] = ["PROXY", " ", "TCP4", "TCP6", "UNKNOWN", "1.2.3.4", "::1", "80", "+1", "\r", "\n", "x"];

pub fn token_seq_count(max_len: u32) -> u64 {
    (0..=max_len).map(|k| 12u64.pow(k)).sum()
}

pub fn token_seq(mut idx: u64) -> Vec<u8> {
    let mut len = 0u32;
    while idx >= 12u64.pow(len) {
        idx -= 12u64.pow(len);
        len += 1;
    }
    let mut out = Vec::new();
    for _ in 0..len {
        out.extend_from_slice(TOKENS[(idx % 12) as usize].as_bytes());
        idx /= 12;
    }
    out
}

pub fn base_lines() -> Vec<Vec<&'static str>> {
    vec![
        vec!["PROXY", " ", "TCP4", " ", "1.2.3.4", " ", "5.6.7.8", " ", "80", " ", "443", "\r", "\n"],
        vec!["PROXY", " ", "TCP6", " ", "::1", " ", "2::", " ", "80", " ", "443", "\r", "\n"],
        vec!["PROXY", " ", "UNKNOWN", "\r", "\n"],
        vec!["PROXY", " ", "UNKNOWN", " ", "x", " ", "x", "\r", "\n"],
        vec!["PROXY", " ", "UNKNOWN", " ", "x", " ", "x", " ", "x", " ", "x", " ", "x", "\r", "\n"],
    ]
}

fn edit_count(n: usize) -> u64 {
    (n + (n + 1) * 12 + n * 12) as u64
}

fn apply_edit(toks: &mut Vec<&'static str>, idx: u64) {
    let n = toks.len();
    let mut i = (idx % edit_count(n).max(1)) as usize;
    if n == 0 {
        toks.push(TOKENS[i % 12]);
        return;
    }
    if i < n {
        toks.remove(i);
        return;
    }
    i -= n;
    if i < (n + 1) * 12 {
        toks.insert(i / 12, TOKENS[i % 12]);
        return;
    }
    i -= (n + 1) * 12;
    toks[i / 12] = TOKENS[i % 12];
}

pub fn token_edit1_count() -> u64 {
    base_lines().iter().map(|b| edit_count(b.len())).sum()
}

pub fn token_edit1(mut idx: u64) -> Vec<u8> {
    for b in base_lines() {
        let c = edit_count(b.len());
        if idx < c {
            let mut t = b.clone();
            apply_edit(&mut t, idx);
            return t.concat().into_bytes();
        }
        idx -= c;
    }
    Vec::new()
}

pub fn token_edit2_count() -> u64 {
    base_lines().iter().map(|b| edit_count(b.len()) * edit_count(b.len() + 1)).sum()
}

pub fn token_edit2(mut idx: u64) -> Vec<u8> {
    for b in base_lines() {
        let c1 = edit_count(b.len());
        let c2 = edit_count(b.len() + 1);
        if idx < c1 * c2 {
            let mut t = b.clone();
            apply_edit(&mut t, idx / c2);
            apply_edit(&mut t, idx % c2);
            return t.concat().into_bytes();
        }
        idx -= c1 * c2;
    }
    Vec::new()
}

// ---------------------------------------------------------------------------------------------
// multi-byte characters around the first CR (exhaustive)

pub const MB_TEMPLATES: [&str; 40] = [
    "PROXY UNKNOWN\r\n",
    "PROXY UNKNOWN\r",
    "PROXY UNKNOWN \r\n",
    "PROXY UNKNOWN x\r\n",
    "PROXY UNKNOWN x\r",
    "PROXY UNKNOWN",
    "PROXY UNKNOWN ",
    "PROXY TCP4 1.2.3.4 5.6.7.8 80 443\r\n",
    "PROXY TCP4 1.2.3.4 5.6.7.8 80 443\r",
    "PROXY TCP4 1.2.3.4 5.6.7.8 80 443",
    "PROXY TCP6 ::1 2:: 80 443\r\n",
    "PROXY TCP6 ::1 2:: 80 443\r",
    "PROXY\r\n",
    "PROXY\r",
    "PROXY \r\n",
    "PROXY \r",
    "PROXY TCP4\r\n",
    "PROXY TCP4\r",
    "PROXY TCP4 \r\n",
    "PROXY TCP4 1.2.3.4\r\n",
    "PROXY TCP4 1.2.3.4 \r",
    "PROXY UNKNOWN \n",
    "PROXY UNKNOWN \n ",
    "PROXY UNKNOWN \n\r\n",
    "PROXY UNKNOWN a b c d e\r\n",
    "PROXY UNKNOWN a b c d\r\n",
    "\r\n",
    "\r",
    "",
    "P\r",
    "P",
    "PROXY UNKNOWN\r\r\n",
    "PROXY UNKNOWN\n\r\n",
    "PROXY UNKNOWN x\r\nPROXY UNKNOWN\r\n",
    "GET / HTTP/1.1\r\n",
    "PROXY TCP4 1.2.3.4 5.6.7.8 80 \r\n",
    "PROXY TCP4 1.2.3.4 5.6.7.8 80\r\n",
    "PROXY UNKNOWN ffff:ffff:ffff:ffff:ffff:ffff:ffff:ffff ffff:ffff:ffff:ffff:ffff:ffff:ffff:ffff 65535 65535\r\n",
    "PROXY UNKNOWN xxxxxxxxxxxxxxxxxxxxxxxxxxxxxxxxxxxxxxxxxxxxxxxxxxxxxxxxxxxxxxxxxxxxxxxxxxxxxxxxxxxxxxxxxxxxxxxxxxxxxxxxxxx\r\n",
    "PROXY UNKNOWN xxxxxxxxxxxxxxxxxxxxxxxxxxxxxxxxxxxxxxxxxxxxxxxxxxxxxxxxxxxxxxxxxxxxxxxxxxxxxxxxxxxxxxxxxxxxxxxxxxxxxxxx",
];
/// multi-byte characters: ordinary ones, and the invisible / white-space ones that `trim`,
/// `strip_prefix` or a "tolerant" reader might swallow (BOM, NBSP, NEL, LINE SEPARATOR,
/// IDEOGRAPHIC SPACE, ZERO WIDTH SPACE)
pub const MB_CHARS: [&str; 11] = ["é", "€", "😀", "\u{80}", "éé", "\u{feff}", "\u{a0}", "\u{85}", "\u{2028}", "\u{3000}", "\u{200b}"];
pub const MB_MAX_OFF: u64 = 110;

pub fn mbcr_count() -> u64 {
    MB_TEMPLATES.len() as u64 * MB_CHARS.len() as u64 * MB_MAX_OFF
}

pub fn mbcr(idx: u64) -> String {
    let t = MB_TEMPLATES[(idx % MB_TEMPLATES.len() as u64) as usize];
    let r = idx / MB_TEMPLATES.len() as u64;
    let c = MB_CHARS[(r % MB_CHARS.len() as u64) as usize];
    let off = ((r / MB_CHARS.len() as u64) % (t.len() as u64 + 1)) as usize;
    let mut s = String::with_capacity(t.len() + c.len());
    s.push_str(&t[..off]);
    s.push_str(c);
    s.push_str(&t[off..]);
    s
}

// ---------------------------------------------------------------------------------------------
// byte-level mutation and random inputs

const HOSTILE: [u8; 20] = [b'\r', b'\n', 0, b' ', b'+', b'-', b'0', b'1', b'9', b':', b'.', 0xFF, 0xC3, 0xA9, b'P', b'x', b'\t', 0xE2, 0x80, b'5'];

pub fn mutate(rng: &mut Rng, v: &mut Vec<u8>) {
    for _ in 0..rng.range(1, 3) {
        let n = v.len();
        match rng.below(7) {
            0 if n > 0 => {
                v.remove(rng.below(n as u64) as usize);
            }
            1 => {
                let b = *rng.pick(&HOSTILE);
                v.insert(rng.below(n as u64 + 1) as usize, b);
            }
            2 if n > 0 => {
                let i = rng.below(n as u64) as usize;
                v[i] = if rng.chance(1, 4) { rng.u8() } else { *rng.pick(&HOSTILE) };
            }
            3 if n > 0 => {
                let i = rng.below(n as u64) as usize;
                let b = v[i];
                v.insert(i, b);
            }
            4 if n > 1 => {
                let i = rng.below(n as u64 - 1) as usize;
                v.swap(i, i + 1);
            }
            5 if n > 0 => {
                v.truncate(rng.below(n as u64) as usize);
            }
            6 if n > 0 => {
                if rng.coin() {
                    // flip one bit
                    let i = rng.below(n as u64) as usize;
                    v[i] ^= 1 << rng.below(8);
                } else {
                    // exchange two separators of different kinds (a dot and a space, a colon and
                    // a space, ...): the multiset of characters stays the same
                    let seps: Vec<usize> = (0..n).filter(|&i| matches!(v[i], b' ' | b'.' | b':')).collect();
                    if seps.len() >= 2 {
                        let a = *rng.pick(&seps[..]);
                        let others: Vec<usize> = seps.iter().copied().filter(|&j| v[j] != v[a]).collect();
                        if !others.is_empty() {
                            // prefer a neighbour: the nearest separator of another kind
                            let b = if rng.coin() { *others.iter().min_by_key(|&&j| (j as i64 - a as i64).abs()).unwrap() } else { *rng.pick(&others[..]) };
                            v.swap(a, b);
                        }
                    }
                }
            }
            _ => {}
        }
    }
}

pub fn random_input(rng: &mut Rng) -> Vec<u8> {
    let n = match rng.below(8) {
        0 => rng.below(8),
        1 => rng.range(100, 125),
        2 => rng.range(200, 260),
        _ => rng.below(110),
    } as usize;
    match rng.below(6) {
        0 => rng.bytes(n),
        1 => (0..n).map(|_| rng.range(0x20, 0x7e) as u8).collect(),
        2 => {
            let mut v = b"PROXY ".to_vec();
            v.extend((0..n).map(|_| *rng.pick(&HOSTILE)));
            v
        }
        3 => {
            let mut v: Vec<u8> = (0..n).map(|_| rng.range(0x20, 0x7e) as u8).collect();
            if n > 0 {
                let i = rng.below(n as u64) as usize;
                v[i] = b'\r';
                if rng.coin() && i + 1 < n {
                    v[i + 1] = b'\n';
                }
            }
            v
        }
        4 => {
            // token soup
            let mut v = Vec::new();
            for _ in 0..rng.below(16) {
                v.extend_from_slice((*rng.pick(&TOKENS)).as_bytes());
            }
            v
        }
        _ => {
            let mut v = b"PROXY UNKNOWN ".to_vec();
            v.extend(rng.bytes(n));
            v
        }
    }
}

/// G-len: inputs whose length sits around the 107-byte limit.
pub fn near_limit(rng: &mut Rng) -> Vec<u8> {
    if rng.chance(1, 10) {
        // a zeroed receive buffer of 106..110 bytes holding an unfinished (or finished) line: the
        // line, then NUL / space / 0xFF padding and no CR
        let mut v = match rng.below(4) {
            0 => b"PROX".to_vec(),
            1 => {
                let b = valid_ascii_body(rng);
                let cut = rng.below(b.len() as u64 + 1) as usize;
                b.as_bytes()[..cut].to_vec()
            }
            2 => valid_ascii_body(rng).into_bytes(),
            _ => b"PROXY UNKNOWN".to_vec(),
        };
        let total = rng.range(105, 110) as usize;
        let pad = *rng.pick(&[0u8, 0, 0, b' ', 0xFF]);
        while v.len() < total {
            v.push(pad);
        }
        v.truncate(total);
        return v;
    }
    let fill = |rng: &mut Rng, head: &str, total: usize| -> Vec<u8> {
        let mut v = head.as_bytes().to_vec();
        let c = *rng.pick(&[b'x', b' ', b'0', b':', b'\n', 0u8]);
        while v.len() < total {
            v.push(if rng.chance(1, 10) { b' ' } else { c });
        }
        v.truncate(total.max(head.len().min(total)));
        v
    };
    match rng.below(11) {
        8 => {
            // TCP6 lines of 96..=116 bytes (zero-padded groups / mixed notation)
            let mut v = tcp6_near_limit(rng).into_bytes();
            v.extend_from_slice(b"\r\n");
            v
        }
        9 => {
            // no CR, 100..=112 bytes, with multi-byte characters (bytes != characters)
            let total = rng.range(100, 112) as usize;
            let mut s = String::from(*rng.pick(&["PROXY UNKNOWN ", "PROXY UNKNOWN", "", "PROXY TCP4 1.2.3.4 "]));
            while s.len() < total {
                let room = total - s.len();
                let c = *rng.pick(&['é', 'x', '€', ' ', '😀', 'a']);
                if c.len_utf8() <= room {
                    s.push(c);
                } else {
                    s.push('x');
                }
            }
            s.into_bytes()
        }
        10 => {
            // a valid header (or an open line) followed by a long non-ASCII tail, so that byte
            // offsets 107 / 108 fall inside a multi-byte character for some alignments
            let mut s = if rng.chance(3, 4) { format!("{}\r\n", valid_body(rng)) } else { "PROXY UNKNOWN a".to_string() };
            for _ in 0..rng.below(4) {
                s.push('x');
            }
            let c = *rng.pick(&["é", "€", "😀", "éx€"]);
            while s.len() < 150 {
                s.push_str(c);
            }
            s.into_bytes()
        }
        0 | 1 => {
            // UNKNOWN line of total length 103..=111 with CRLF
            let total = rng.range(103, 111) as usize;
            let mut v = fill(rng, "PROXY UNKNOWN ", total - 2);
            v.extend_from_slice(b"\r\n");
            v
        }
        2 => {
            // no CR at all, 100..=120 or 200 bytes
            let total = if rng.chance(1, 8) { 200 } else { rng.range(100, 120) as usize };
            let head = *rng.pick(&["PROXY UNKNOWN ", "", "PROXY TCP4 1.2.3.4 5.6.7.8 80 443 ", "xxxx", "PROXY "]);
            fill(rng, head, total)
        }
        3 => {
            // CR placed at index 103..=110, followed by nothing / LF / junk
            let at = rng.range(103, 110) as usize;
            let mut v = fill(rng, "PROXY UNKNOWN ", at);
            v.push(b'\r');
            match rng.below(4) {
                0 => {}
                1 => v.push(b'\n'),
                2 => v.extend_from_slice(b"\nGET /"),
                _ => v.push(rng.u8()),
            }
            v
        }
        4 => {
            // worst-case TCP6 line (104 bytes) and the same with something added
            let mut s = String::from("PROXY TCP6 ffff:ffff:ffff:ffff:ffff:ffff:ffff:ffff ffff:ffff:ffff:ffff:ffff:ffff:ffff:fffe 65535 65534");
            match rng.below(4) {
                0 => {}
                1 => s.push(' '),
                2 => s.push_str("    "),
                _ => s = s.replace("TCP6 ", "TCP6  "),
            }
            s.push_str("\r\n");
            s.into_bytes()
        }
        5 => {
            // TCP line with over-long garbage field pushing it past the limit
            let v6 = rng.coin();
            let mut f = valid_tcp_fields(rng, v6);
            let e = rng.range(2, 5) as usize;
            let pad = rng.range(40, 90) as usize;
            f[e] = format!("{}{}", f[e], "0".repeat(pad));
            let mut v = f.join(" ").into_bytes();
            v.extend_from_slice(b"\r\n");
            v
        }
        6 => {
            // 106/107/108 bytes without CR followed later by a CRLF
            let total = rng.range(105, 109) as usize;
            let mut v = fill(rng, "PROXY UNKNOWN ", total);
            v.extend_from_slice(b"xx\r\n");
            v
        }
        _ => {
            // non-ASCII text around the limit
            let total = rng.range(100, 110) as usize;
            let mut s = String::from("PROXY UNKNOWN ");
            while s.len() + 2 < total {
                s.push(*rng.pick(&['é', 'x', '€', ' ']));
            }
            s.push_str("\r\n");
            s.into_bytes()
        }
    }
}

// ---------------------------------------------------------------------------------------------
// exhaustive single-field sweeps: every value of one field, everything else random

/// 4 x 65536 port values (TCP4 source / destination, TCP6 source / destination),
/// 8 x 256 octet values (every octet position of a TCP4 line),
/// 16 x 65536 group values (every group position of a TCP6 line).
pub const SWEEP_PORTS: u64 = 4 * 65536;
pub const SWEEP_OCTETS: u64 = 8 * 256;
pub const SWEEP_GROUPS: u64 = 16 * 65536;
/// An address value of the sweep (the monitor crate converts it to its own representation).
#[derive(Clone, Copy, Debug, PartialEq, Eq)]
pub enum Val1 {
    Tcp4 { src: [u8; 4], dst: [u8; 4], sp: u16, dp: u16 },
    Tcp6 { src: [u8; 16], dst: [u8; 16], sp: u16, dp: u16 },
}

/// UNKNOWN lines whose free text carries every byte value (first, middle, last position of the
/// text, 16 paddings that move the CR through every alignment), every 2-byte UTF-8 character and
/// every 3-byte character with lead E1..EC as the last thing before the CR.
pub const SWEEP_TEXT_BYTES: u64 = 256 * 3 * 16;
pub const SWEEP_TEXT_2B: u64 = 30 * 64 * 8;
pub const SWEEP_TEXT_3B: u64 = 12 * 64 * 64;
/// The shortest well-formed lines: TCP6 with both addresses from {::, ::1, 1::, ::a, f::} and
/// one-digit ports (20..22 bytes before the CR), TCP4 with one-digit octets from {0, 1, 9}.
pub const SWEEP_SHORT6: u64 = 5 * 5 * 10 * 10;
pub const SWEEP_SHORT4: u64 = 6561 * 4;
pub fn sweep_count() -> u64 {
    SWEEP_PORTS + SWEEP_OCTETS + SWEEP_GROUPS + SWEEP_TEXT_BYTES + SWEEP_TEXT_2B + SWEEP_TEXT_3B + SWEEP_SHORT6 + SWEEP_SHORT4
}

fn sweep_short_line(idx: u64) -> Vec<u8> {
    const A6: [&str; 5] = ["::", "::1", "1::", "::a", "f::"];
    if idx < SWEEP_SHORT6 {
        let (a, b, p, q) = (idx % 5, (idx / 5) % 5, (idx / 25) % 10, idx / 250);
        format!("PROXY TCP6 {} {} {} {}", A6[a as usize], A6[b as usize], p, q).into_bytes()
    } else {
        let mut j = idx - SWEEP_SHORT6;
        let ports = j % 4;
        j /= 4;
        let mut o = [0u64; 8];
        for x in o.iter_mut() {
            *x = [0, 1, 9][(j % 3) as usize];
            j /= 3;
        }
        format!("PROXY TCP4 {}.{}.{}.{} {}.{}.{}.{} {} {}", o[0], o[1], o[2], o[3], o[4], o[5], o[6], o[7], [0, 7][(ports % 2) as usize], [0, 9][(ports / 2) as usize]).into_bytes()
    }
}

fn sweep_text_line(idx: u64, rng: &mut Rng) -> Vec<u8> {
    let mut v = b"PROXY UNKNOWN ".to_vec();
    let pad = |v: &mut Vec<u8>, n: u64, rng: &mut Rng| {
        for _ in 0..n {
            v.push(*rng.pick(b"abcxyz019 .:"));
        }
    };
    if idx < SWEEP_TEXT_BYTES {
        let b = (idx % 256) as u8;
        let pos = (idx / 256) % 3;
        let k = idx / 768;
        match pos {
            0 => {
                pad(&mut v, k, rng);
                v.push(b);
            }
            1 => {
                v.push(b);
                pad(&mut v, k, rng);
            }
            _ => {
                pad(&mut v, k / 2 + 1, rng);
                v.push(b);
                pad(&mut v, k - k / 2, rng);
            }
        }
    } else if idx < SWEEP_TEXT_BYTES + SWEEP_TEXT_2B {
        let j = idx - SWEEP_TEXT_BYTES;
        let lead = 0xC2 + (j % 30) as u8;
        let cont = 0x80 + ((j / 30) % 64) as u8;
        pad(&mut v, j / (30 * 64), rng);
        v.extend_from_slice(&[lead, cont]);
        if rng.chance(1, 4) {
            v.push(b'x');
        }
    } else {
        let j = idx - SWEEP_TEXT_BYTES - SWEEP_TEXT_2B;
        let lead = 0xE1 + (j % 12) as u8;
        let c1 = 0x80 + ((j / 12) % 64) as u8;
        let c2 = 0x80 + ((j / (12 * 64)) % 64) as u8;
        pad(&mut v, rng.below(8), rng);
        v.extend_from_slice(&[lead, c1, c2]);
        if rng.chance(1, 4) {
            v.push(b'x');
        }
    }
    v
}

/// The address values of sweep case `idx` (the swept field takes its idx-determined value, the
/// rest is random but keeps source != destination wherever the swept value allows it).
pub fn sweep_values(idx: u64, rng: &mut Rng) -> Val1 {
    if idx < SWEEP_PORTS {
        let k = idx / 65536;
        let p = (idx % 65536) as u16;
        let mut other = rand_port(rng);
        if other == p {
            other = other.wrapping_add(1);
        }
        let (sp, dp) = if k % 2 == 0 { (p, other) } else { (other, p) };
        if k < 2 {
            let (a, b) = rand_v4_pair(rng);
            Val1::Tcp4 { src: a, dst: b, sp, dp }
        } else {
            let (a, b) = rand_v6_pair(rng);
            Val1::Tcp6 { src: bytes_of(a), dst: bytes_of(b), sp, dp }
        }
    } else if idx < SWEEP_PORTS + SWEEP_OCTETS {
        let j = idx - SWEEP_PORTS;
        let pos = (j / 256) as usize;
        let val = (j % 256) as u8;
        let (mut a, mut b) = rand_v4_pair(rng);
        if pos < 4 {
            a[pos] = val;
        } else {
            b[pos - 4] = val;
        }
        let (sp, dp) = rand_port_pair(rng);
        Val1::Tcp4 { src: a, dst: b, sp, dp }
    } else {
        let j = idx - SWEEP_PORTS - SWEEP_OCTETS;
        let pos = (j / 65536) as usize;
        let val = (j % 65536) as u16;
        let (mut a, mut b) = rand_v6_pair(rng);
        if pos < 8 {
            a[pos] = val;
        } else {
            b[pos - 8] = val;
        }
        let (sp, dp) = rand_port_pair(rng);
        Val1::Tcp6 { src: bytes_of(a), dst: bytes_of(b), sp, dp }
    }
}

/// The text line (without CRLF) of sweep case `idx`; TCP6 addresses in a random legal spelling.
pub fn sweep_body(idx: u64, rng: &mut Rng) -> String {
    match sweep_values(idx, rng) {
        Val1::Tcp4 { src, dst, sp, dp } => format!("PROXY TCP4 {} {} {} {}", fmt_v4(src), fmt_v4(dst), sp, dp),
        Val1::Tcp6 { src, dst, sp, dp } => {
            let s1 = *rng.pick(&V6_STYLES);
            let s2 = if rng.coin() { s1 } else { *rng.pick(&V6_STYLES) };
            let line = format!("PROXY TCP6 {} {} {} {}", fmt_v6(groups_of(src), s1, rng), fmt_v6(groups_of(dst), s2, rng), sp, dp);
            if line.len() + 2 > 107 {
                // the longest spellings of two addresses do not fit: fall back to the canonical one
                format!("PROXY TCP6 {} {} {} {}", fmt_v6(groups_of(src), V6Style::Canon, rng), fmt_v6(groups_of(dst), V6Style::Canon, rng), sp, dp)
            } else {
                line
            }
        }
    }
}

// ---------------------------------------------------------------------------------------------
// the shared v1 workload

// ---------------------------------------------------------------------------------------------
// multi-byte characters across the offsets around the 107-byte limit

const STRADDLE_HEADS: [&str; 6] = ["PROXY TCP4 ", "PROXY TCP6 ", "PROXY UNKNOWN ", "PROXY ", "PROXY TCP6 fe80::1%eth0 ", "proxy tcp6 "];
const STRADDLE_CHARS: [&str; 3] = ["\u{e9}", "\u{20ac}", "\u{1f600}"];
const STRADDLE_TOTALS: [usize; 5] = [108, 110, 124, 139, 200];

pub fn straddle_count() -> u64 {
    (STRADDLE_HEADS.len() * STRADDLE_CHARS.len() * 8 * STRADDLE_TOTALS.len() * 4) as u64
}

/// A long input that begins like a header and has one multi-byte character lying across one of
/// the byte offsets 103..=110 (so that `&s[..n]` for n around the limit cuts it in the middle);
/// without a CR, or with its first CR shortly before / right after / well after the character.
pub fn straddle_case(mut idx: u64) -> Vec<u8> {
    let mut take = |n: usize| {
        let r = (idx % n as u64) as usize;
        idx /= n as u64;
        r
    };
    let head = STRADDLE_HEADS[take(STRADDLE_HEADS.len())];
    let ch = STRADDLE_CHARS[take(STRADDLE_CHARS.len())];
    let cut = 103 + take(8); // the offset that falls inside the character
    let total = STRADDLE_TOTALS[take(STRADDLE_TOTALS.len())];
    let cr = take(4);
    let w = ch.len();
    // the character starts 1 ..= w-1 bytes before `cut`
    let start = cut - 1 - (idx as usize % (w - 1));
    let mut v = head.as_bytes().to_vec();
    let filler = b"1234:5678:9abc:def0 ";
    let mut k = 0;
    while v.len() < start {
        v.push(filler[k % filler.len()]);
        k += 1;
    }
    v.truncate(start);
    v.extend_from_slice(ch.as_bytes());
    match cr {
        0 => {}
        1 => {
            // a CR a few bytes before the character (the line is closed, the character is payload)
            if start > 20 {
                v[start - 4] = b'\r';
                v[start - 3] = b'\n';
            }
        }
        2 => v.extend_from_slice(b"\r\n"),
        _ => {}
    }
    while v.len() < total {
        v.push(filler[k % filler.len()]);
        k += 1;
    }
    if cr == 3 {
        v.extend_from_slice(b"\r\n");
    }
    v
}

/// Streams of the general v1 workload; `unit` scales the random streams.
pub fn v1_streams(tier: Tier, unit: u64) -> Vec<StreamSpec> {
    let u = unit;
    vec![
        stream("v1-valid", tier.n(300, 60 * u, 4000 * u)),
        stream("v1-field", tier.n(300, 60 * u, 4000 * u)),
        stream("v1-eol", tier.n(300, 40 * u, 3000 * u)),
        stream("v1-len", tier.n(150, 40 * u, 3000 * u)),
        stream("v1-mut", tier.n(300, 60 * u, 5000 * u)),
        stream("v1-rand", tier.n(100, 30 * u, 2500 * u)),
        exhaustive("v1-token-seq", token_seq_count(tier.n(2, 5, 6) as u32)),
        exhaustive("v1-token-edit1", token_edit1_count()),
        if tier == Tier::Thorough {
            exhaustive("v1-token-edit2", token_edit2_count())
        } else {
            stream("v1-token-edit2s", tier.n(100, 30 * u, 0))
        },
        exhaustive("v1-mbcr", if tier == Tier::Miri { 400 } else { mbcr_count() }),
        if tier == Tier::Miri { stream("v1-sweep-s", 200) } else { exhaustive("v1-sweep", sweep_count()) },
        exhaustive("v1-straddle", if tier == Tier::Miri { 60 } else { straddle_count() }),
        // pairs of unrelated lines with equal fingerprints, each in both orders (spec::collide)
        exhaustive("v1-collide", if tier == Tier::Miri { 0 } else { 2 * crate::collide::v1_pairs().len() as u64 }),
    ]
}

/// Case `idx` of a v1 stream.
pub fn v1_case(stream_name: &str, idx: u64, seed: u64) -> Vec<u8> {
    let mut rng = Rng::for_case(seed, stream_id(stream_name), idx);
    let rng = &mut rng;
    let maybe_trailer = |rng: &mut Rng, mut v: Vec<u8>| -> Vec<u8> {
        if rng.chance(1, 3) {
            let t = trailers();
            v.extend_from_slice(rng.pick(&t[..]).as_slice());
        }
        v
    };
    match stream_name {
        "v1-valid" => {
            let mut v = valid_body(rng).into_bytes();
            v.extend_from_slice(b"\r\n");
            maybe_trailer(rng, v)
        }
        "v1-field" => {
            let mut v = faulty_body(rng).into_bytes();
            v.extend_from_slice(b"\r\n");
            maybe_trailer(rng, v)
        }
        "v1-eol" => {
            let mut v = if rng.chance(3, 4) { valid_body(rng) } else { faulty_body(rng) }.into_bytes();
            // G-eol: all listed endings, and CR followed by each of the 256 byte values
            let k = idx % (ENDINGS.len() as u64 + 256);
            if (k as usize) < ENDINGS.len() {
                v.extend_from_slice(ENDINGS[k as usize]);
            } else {
                v.push(b'\r');
                v.push((k - ENDINGS.len() as u64) as u8);
            }
            maybe_trailer(rng, v)
        }
        "v1-len" => near_limit(rng),
        "v1-mut" => {
            let mut v = valid_body(rng).into_bytes();
            v.extend_from_slice(b"\r\n");
            mutate(rng, &mut v);
            maybe_trailer(rng, v)
        }
        "v1-rand" => random_input(rng),
        "v1-token-seq" => token_seq(idx),
        "v1-token-edit1" => token_edit1(idx),
        "v1-token-edit2" => token_edit2(idx),
        "v1-token-edit2s" => {
            let c = token_edit2_count();
            token_edit2(rng.below(c))
        }
        "v1-mbcr" => mbcr(idx).into_bytes(),
        "v1-collide" => crate::collide::v1_case(idx),
        "v1-straddle" => straddle_case(if crate::engine::small() { idx * 47 } else { idx }),
        "v1-sweep" | "v1-sweep-s" => {
            let i = if stream_name == "v1-sweep" { idx } else { rng.below(sweep_count()) };
            let fields = SWEEP_PORTS + SWEEP_OCTETS + SWEEP_GROUPS;
            let texts = fields + SWEEP_TEXT_BYTES + SWEEP_TEXT_2B + SWEEP_TEXT_3B;
            let mut v = if i < fields {
                sweep_body(i, rng).into_bytes()
            } else if i < texts {
                sweep_text_line(i - fields, rng)
            } else {
                sweep_short_line(i - texts)
            };
            if i >= fields && i < texts && rng.chance(1, 4) {
                // the same line closed by CR + something else
                v.push(b'\r');
                v.push(*rng.pick(b"X\r\0 P\x0c\xc3"));
            } else {
                v.extend_from_slice(b"\r\n");
            }
            maybe_trailer(rng, v)
        }
        _ => Vec::new(),
    }
}
