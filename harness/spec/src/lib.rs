//! Executable specification for the PROXY protocol properties C01..C20: reference oracles,
//! workload generators, the recording/engine machinery.  This crate does NOT depend on `ppp`
//! (it cannot call it), which makes the independence of the oracles structural.

pub mod build;
pub mod collide;
pub mod engine;
pub mod json;
pub mod record;
pub mod rng;
pub mod selftest;
pub mod sib;
pub mod v1;
pub mod v1gen;
pub mod v2;
