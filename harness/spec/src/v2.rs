//! Reference decoder for PROXY protocol v2 headers (table driven, from the protocol text and
//! the statement of C02/C17), TLV reference walk, and v2 workload generators.

use crate::engine::{exhaustive, stream, stream_id, StreamSpec, Tier};
use crate::rng::Rng;

pub const SIG: [u8; 12] = [0x0D, 0x0A, 0x0D, 0x0A, 0x00, 0x0D, 0x0A, 0x51, 0x55, 0x49, 0x54, 0x0A];

/// Size of the address block of family nibble `f` (0 unspec, 1 IPv4, 2 IPv6, 3 Unix).
pub fn fam_size(f: u8) -> Option<usize> {
    match f {
        0 => Some(0),
        1 => Some(12),
        2 => Some(36),
        3 => Some(216),
        _ => None,
    }
}

#[derive(Clone, Copy, PartialEq, Eq, Debug)]
pub enum V2Ref {
    Ok { total: usize, cmd: u8, fam: u8, tr: u8 },
    /// fewer than 16 bytes, all of them consistent with the signature
    Incomplete(usize),
    /// (payload bytes present, declared length)
    Partial(usize, usize),
    Prefix,
    /// carries the byte masked with 0xF0 (value "in place")
    Version(u8),
    Command(u8),
    /// carries the byte masked with 0xF0
    Family(u8),
    Transport(u8),
    /// (declared length, required size)
    InvalidAddresses(usize, usize),
}

impl V2Ref {
    pub fn class(&self) -> &'static str {
        match self {
            V2Ref::Ok { .. } => "ok",
            V2Ref::Incomplete(_) => "incomplete",
            V2Ref::Partial(..) => "partial",
            V2Ref::Prefix => "prefix",
            V2Ref::Version(_) => "version",
            V2Ref::Command(_) => "command",
            V2Ref::Family(_) => "family",
            V2Ref::Transport(_) => "transport",
            V2Ref::InvalidAddresses(..) => "invalid-addresses",
        }
    }
    pub fn is_ok(&self) -> bool {
        matches!(self, V2Ref::Ok { .. })
    }
    pub fn is_incomplete(&self) -> bool {
        matches!(self, V2Ref::Incomplete(_) | V2Ref::Partial(..))
    }
}

pub fn v2_ref(input: &[u8]) -> V2Ref {
    let n = input.len().min(12);
    if input[..n] != SIG[..n] {
        return V2Ref::Prefix;
    }
    if input.len() < 16 {
        return V2Ref::Incomplete(input.len());
    }
    let vc = input[12];
    let fp = input[13];
    if vc >> 4 != 2 {
        return V2Ref::Version(vc & 0xF0);
    }
    let cmd = vc & 0x0F;
    if cmd > 1 {
        return V2Ref::Command(cmd);
    }
    let fam = fp >> 4;
    let size = match fam_size(fam) {
        Some(s) => s,
        None => return V2Ref::Family(fp & 0xF0),
    };
    let tr = fp & 0x0F;
    if tr > 2 {
        return V2Ref::Transport(tr);
    }
    let len = ((input[14] as usize) << 8) | input[15] as usize;
    if len < size {
        return V2Ref::InvalidAddresses(len, size);
    }
    if input.len() < 16 + len {
        return V2Ref::Partial(input.len() - 16, len);
    }
    V2Ref::Ok { total: 16 + len, cmd, fam, tr }
}

// ---------------------------------------------------------------------------------------------
// TLV reference walk

#[derive(Clone, Copy, PartialEq, Eq, Debug)]
pub struct TlvItem {
    pub kind: u8,
    /// offset of the type byte in the section
    pub start: usize,
    pub len: usize,
}

#[derive(Clone, Copy, PartialEq, Eq, Debug)]
pub enum TlvEnd {
    Clean,
    /// 1 or 2 bytes left
    Leftover(usize),
    Overrun { kind: u8, declared: u16 },
}

pub fn tlv_ref(section: &[u8]) -> (Vec<TlvItem>, TlvEnd) {
    let mut items = Vec::new();
    let mut pos = 0usize;
    loop {
        let rem = section.len() - pos;
        if rem == 0 {
            return (items, TlvEnd::Clean);
        }
        if rem < 3 {
            return (items, TlvEnd::Leftover(rem));
        }
        let kind = section[pos];
        let declared = ((section[pos + 1] as u16) << 8) | section[pos + 2] as u16;
        if rem - 3 < declared as usize {
            return (items, TlvEnd::Overrun { kind, declared });
        }
        items.push(TlvItem { kind, start: pos, len: declared as usize });
        pos += 3 + declared as usize;
    }
}

/// All strings over {0,1,2,3,0xFF} of length <= 8, by index.
pub const SMALL_ALPHABET: [u8; 5] = [0, 1, 2, 3, 0xFF];
pub fn small_section_count(max_len: u32) -> u64 {
    (0..=max_len).map(|k| 5u64.pow(k)).sum()
}
pub fn small_section(mut idx: u64) -> Vec<u8> {
    let mut len = 0u32;
    while idx >= 5u64.pow(len) {
        idx -= 5u64.pow(len);
        len += 1;
    }
    let mut out = Vec::with_capacity(len as usize);
    for _ in 0..len {
        out.push(SMALL_ALPHABET[(idx % 5) as usize]);
        idx /= 5;
    }
    out
}

const TLV_LENS: [usize; 18] = [0, 0, 1, 1, 2, 3, 4, 4, 5, 7, 8, 16, 32, 255, 256, 257, 1000, 4096];

/// Fills a TLV value: random bytes, all zero, all ones, or printable text.
fn fill_value(rng: &mut Rng, v: &mut [u8]) {
    match rng.below(8) {
        0 => v.iter_mut().for_each(|b| *b = 0),
        1 => v.iter_mut().for_each(|b| *b = 0xFF),
        2 => v.iter_mut().for_each(|b| *b = b'a' + (rng.next() % 26) as u8),
        _ => rng.fill(v),
    }
}

/// HAProxy-style PP2_TYPE_SSL TLV: client byte, 4 verify bytes, then well-formed sub-TLVs.
fn ssl_tlv(rng: &mut Rng, room: usize) -> Vec<u8> {
    let mut value = vec![rng.u8() & 7, 0, 0, 0, rng.u8() & 1];
    for sub in [0x21u8, 0x22, 0x23, 0x24, 0x25] {
        if rng.coin() {
            let l = rng.below(12) as usize;
            if value.len() + 3 + l + 3 > room {
                break;
            }
            value.push(sub);
            value.extend_from_slice(&(l as u16).to_be_bytes());
            for _ in 0..l {
                value.push(b'A' + (rng.next() % 26) as u8);
            }
        }
    }
    // one in four: the nested area does not tile - one or two dangling bytes, or a sub-TLV that
    // announces more than the SSL value holds
    if value.len() + 4 <= room {
        match rng.below(8) {
            0 => value.push(0x21),
            1 => value.extend_from_slice(&[0x22, 0x00]),
            2 => value.extend_from_slice(&[0x23, 0x00, 0x09, b'x']),
            _ => {}
        }
    }
    let mut out = vec![0x20];
    out.extend_from_slice(&(value.len() as u16).to_be_bytes());
    out.extend_from_slice(&value);
    out
}

/// CRC-32C (Castagnoli), bitwise; for the PP2_TYPE_CRC32C TLV of short headers.
pub fn crc32c(data: &[u8]) -> u32 {
    let mut crc: u32 = !0;
    for &b in data {
        crc ^= b as u32;
        for _ in 0..8 {
            crc = if crc & 1 != 0 { (crc >> 1) ^ 0x82F6_3B78 } else { crc >> 1 };
        }
    }
    !crc
}

/// Thousands of tiny TLVs: counts around the powers of two and the maximum that fits.
pub fn tiny_flood(rng: &mut Rng, budget: usize) -> Vec<u8> {
    let max = budget / 3;
    let target = if crate::engine::small() {
        rng.range(5, 60) as usize
    } else {
        match rng.below(9) {
            0 => 1023 + rng.below(3) as usize,
            1 => 4095 + rng.below(3) as usize,
            2 => 16383 + rng.below(3) as usize,
            3 => max,
            4 => max.saturating_sub(1),
            5 => 255 + rng.below(3) as usize,
            6 => 65 + rng.below(2000) as usize,
            7 => 2047 + rng.below(3) as usize,
            _ => 8191 + rng.below(3) as usize,
        }
    }
    .min(max);
    let mut out = Vec::with_capacity(target * 3 + 8);
    let kind = rng.u8();
    let vary = rng.coin();
    for i in 0..target {
        let one = vary && i % 7 == 3 && out.len() + 4 + (target - i - 1) * 3 <= budget;
        out.push(if rng.chance(1, 8) { rng.u8() } else { kind });
        out.push(0);
        out.push(one as u8);
        if one {
            out.push(i as u8);
        }
    }
    out
}

/// A well-formed TLV section of at most `budget` bytes (possibly empty).
pub fn wellformed_section(rng: &mut Rng, budget: usize) -> Vec<u8> {
    let mut out = Vec::new();
    let n = rng.below(8);
    // one section in four repeats a (mostly registered) type: the same TLV type two or more times
    let repeat: Option<u8> = if rng.chance(1, 4) { Some(*rng.pick(&[0x01u8, 0x02, 0x03, 0x04, 0x05, 0x20, 0x21, 0x22, 0x25, 0x30, 0x30, 0x05, 0xE0, 0x00])) } else { None };
    for _ in 0..n {
        let room = budget.saturating_sub(out.len());
        if room < 3 {
            break;
        }
        let mut l = *rng.pick(&TLV_LENS);
        if rng.chance(1, 40) {
            l = 65535;
        }
        let l = l.min(room - 3).min(65535);
        let kind = match repeat {
            Some(k) if rng.chance(2, 3) => k,
            _ => {
                if rng.coin() {
                    rng.u8()
                } else {
                    *rng.pick(&[0x01u8, 0x02, 0x03, 0x04, 0x05, 0x20, 0x21, 0x22, 0x23, 0x24, 0x25, 0x30])
                }
            }
        };
        if kind == 0x20 && room >= 16 && rng.coin() {
            out.extend_from_slice(&ssl_tlv(rng, room.min(120)));
            continue;
        }
        out.push(kind);
        out.extend_from_slice(&(l as u16).to_be_bytes());
        let start = out.len();
        out.resize(start + l, 0);
        fill_value(rng, &mut out[start..]);
        if l >= 12 && rng.chance(1, 12) {
            // a value that itself starts with the v2 signature (a nested / forwarded header)
            out[start..start + 12].copy_from_slice(&SIG);
        }
    }
    match rng.below(24) {
        // the signature at a TLV boundary (a second header swallowed by the declared length): it
        // reads as a TLV of type 0x0D and length 0x0A0D = 2573 - overrunning, or with all of its
        // value present
        0 if budget >= out.len() + 16 => {
            out.extend_from_slice(&SIG);
            let have = if budget >= out.len() + 2563 && rng.coin() { 2573 - 9 } else { rng.below((budget - out.len()).min(40) as u64 + 1) as usize };
            let start = out.len();
            out.resize(start + have, 0);
            rng.fill(&mut out[start..]);
        }
        // zero bytes up to the end: one to three empty type-0 TLVs
        1 if budget >= out.len() + 9 && !out.is_empty() => {
            for _ in 0..rng.range(1, 3) {
                out.extend_from_slice(&[0, 0, 0]);
            }
        }
        _ => {}
    }
    out
}

/// A TLV section of one of several kinds; returns (bytes, kind name).
pub fn any_section(rng: &mut Rng, budget: usize) -> (Vec<u8>, &'static str) {
    if budget >= 3000 && rng.chance(1, 3) {
        return (tiny_flood(rng, budget), "wellformed");
    }
    match rng.below(8) {
        0 => (Vec::new(), "empty"),
        1..=3 => (wellformed_section(rng, budget), "wellformed"),
        4 => {
            // well-formed then truncated at a random point
            let mut s = wellformed_section(rng, budget);
            if !s.is_empty() {
                let cut = rng.below(s.len() as u64) as usize;
                s.truncate(cut);
            }
            (s, "truncated")
        }
        5 => {
            // declared length larger than what follows
            let mut s = wellformed_section(rng, budget.saturating_sub(8));
            if budget >= s.len() + 3 {
                s.push(rng.u8());
                let have = rng.below(5) as usize;
                let have = have.min(budget - s.len() - 2);
                let declared = have as u16 + 1 + (rng.below(3) as u16) * 255;
                s.extend_from_slice(&declared.to_be_bytes());
                for _ in 0..have {
                    s.push(rng.u8());
                }
            }
            (s, "overrun")
        }
        6 => {
            let n = rng.below(40).min(budget as u64) as usize;
            (rng.bytes(n), "random-short")
        }
        _ => {
            let n = rng.below(budget as u64 + 1) as usize;
            (rng.bytes(n), "random")
        }
    }
}

// ---------------------------------------------------------------------------------------------
// header generators

/// The 24 valid control-byte pairs, by index.
pub fn valid_ctl(i: u64) -> (u8, u8) {
    let i = i % 24;
    let cmd = (i % 2) as u8;
    let tr = ((i / 2) % 3) as u8;
    let fam = ((i / 6) % 4) as u8;
    (0x20 | cmd, (fam << 4) | tr)
}

/// Random address bytes with no repeated / palindromic structure (all bytes distinct where the
/// block is short enough, so that a swapped or reversed field cannot go unnoticed).
pub fn address_block(rng: &mut Rng, fam: u8) -> Vec<u8> {
    let n = fam_size(fam).unwrap_or(0);
    if fam != 0 && rng.chance(1, 3) {
        // a block encoded from address *values* (special IPv4/IPv6 classes, equal endpoints,
        // Unix paths from a dictionary of realistic spellings)
        return crate::build::Addr::random(rng, fam).encode();
    }
    let mut v = vec![0u8; n];
    match rng.below(8) {
        0 => {}
        1 => v.iter_mut().for_each(|b| *b = 0xFF),
        _ => {
            // a random permutation of 0..=255: all bytes distinct for n <= 256, and a NUL byte
            // followed by non-zero bytes shows up in most Unix blocks
            let mut perm: Vec<u8> = (0..=255).collect();
            for i in (1..perm.len()).rev() {
                perm.swap(i, rng.below(i as u64 + 1) as usize);
            }
            for (i, b) in v.iter_mut().enumerate() {
                *b = perm[i % 256];
            }
        }
    }
    v
}

pub struct V2Meta {
    pub vc: u8,
    pub fp: u8,
    pub declared: usize,
    pub section_kind: &'static str,
}

/// Writes a complete, valid v2 header into `buf` (cleared first).
pub fn valid_header(rng: &mut Rng, buf: &mut Vec<u8>) -> V2Meta {
    let (vc, fp) = valid_ctl(rng.below(24));
    valid_header_with(rng, buf, vc, fp)
}

pub fn valid_header_with(rng: &mut Rng, buf: &mut Vec<u8>, vc: u8, fp: u8) -> V2Meta {
    valid_header_budget(rng, buf, vc, fp, None)
}

/// `small`: cap the TLV section at that many bytes (the exhaustive sweeps want short headers).
pub fn valid_header_budget(rng: &mut Rng, buf: &mut Vec<u8>, vc: u8, fp: u8, small: Option<u64>) -> V2Meta {
    let fam = fp >> 4;
    let size = fam_size(fam).unwrap_or(0);
    buf.clear();
    buf.extend_from_slice(&SIG);
    buf.push(vc);
    buf.push(fp);
    buf.extend_from_slice(&[0, 0]);
    buf.extend_from_slice(&address_block(rng, fam));
    // budget for the rest of the payload
    let budget = match rng.below(20) {
        _ if small.is_some() => rng.below(small.unwrap() + 1) as usize,
        0 | 1 | 3 if crate::engine::small() && rng.chance(3, 4) => rng.below(600) as usize,
        0 | 3 => 65535 - size,
        1 => rng.below((65535 - size) as u64 + 1) as usize,
        2 => 0,
        _ => rng.below(300) as usize,
    };
    let (section, kind) = any_section(rng, budget);
    buf.extend_from_slice(&section);
    if small.is_none() && rng.chance(1, 30) && kind == "wellformed" {
        // fill exactly up to 65535 with one last TLV
        let used = buf.len() - 16;
        if 65535 - used >= 3 {
            let l = 65535 - used - 3;
            buf.push(rng.u8());
            buf.extend_from_slice(&(l as u16).to_be_bytes());
            let start = buf.len();
            buf.resize(start + l, 0);
            rng.fill(&mut buf[start..]);
        }
    }
    if rng.chance(1, 24) && buf.len() >= 16 + size + 12 {
        // a payload / TLV section that begins with the signature (a header wrapped in a header)
        let at = if rng.coin() || size == 0 { 16 } else { 16 + size };
        buf[at..at + 12].copy_from_slice(&SIG);
    }
    let mut kind = kind;
    // (also for the unspecified family, whose payload is opaque but may well be a TLV vector)
    if kind == "wellformed" && buf.len() + 7 <= 16 + 65535 && buf.len() < 3000 && rng.chance(1, 10) {
        // a PP2_TYPE_CRC32C TLV carrying the correct checksum: CRC-32C of the whole header with
        // the checksum field zero (only a sender that computes it exposes a receiver that verifies
        // it over the wrong span)
        buf.extend_from_slice(&[0x03, 0x00, 0x04, 0, 0, 0, 0]);
        let declared = buf.len() - 16;
        buf[14] = (declared >> 8) as u8;
        buf[15] = declared as u8;
        if tlv_ref(&buf[16 + size..]).1 == TlvEnd::Clean {
            let c = crc32c(buf);
            let n = buf.len();
            buf[n - 4..].copy_from_slice(&c.to_be_bytes());
        } else {
            kind = "random";
        }
    }
    let declared = buf.len() - 16;
    buf[14] = (declared >> 8) as u8;
    buf[15] = declared as u8;
    V2Meta { vc, fp, declared, section_kind: kind }
}

pub const LEN_LADDER: [u16; 17] = [0, 1, 11, 12, 13, 35, 36, 37, 215, 216, 217, 255, 256, 257, 4096, 65534, 65535];

/// H-ctl (quick form): control pair × length ladder × bytes-present ladder.
/// idx enumerates 65536 × 17 × 8 combinations.
pub const CTL_PRESENT: u64 = 8;
pub fn ctl_count() -> u64 {
    65536 * LEN_LADDER.len() as u64 * CTL_PRESENT
}
pub fn ctl_case(idx: u64, rng: &mut Rng, buf: &mut Vec<u8>) {
    let ctl = (idx % 65536) as u16;
    let r = idx / 65536;
    let len = LEN_LADDER[(r % LEN_LADDER.len() as u64) as usize] as usize;
    let p = r / LEN_LADDER.len() as u64;
    let full = 16 + len;
    let present = match p {
        0 => full,
        1 => full - 1,
        2 => full + 5,
        3 => 16,
        4 => 15,
        5 => 12,
        6 => 11,
        _ => full / 2,
    };
    buf.clear();
    buf.resize(present.max(16), 0);
    // only the first bytes are re-randomised per case; the rest keeps whatever the reused
    // buffer held (the parser must not look at it anyway)
    let head = buf.len().min(300);
    rng.fill(&mut buf[..head]);
    buf[..12].copy_from_slice(&SIG);
    buf[12] = (ctl >> 8) as u8;
    buf[13] = ctl as u8;
    buf[14] = (len >> 8) as u8;
    buf[15] = len as u8;
    buf.truncate(present);
}

/// Dense ladder for the 24 valid control pairs: every declared length 0..=1100 and the top 52
/// values, x the 8 presence relations.
pub const DENSE_LENS: u64 = 1101 + 52;
pub fn dense_count() -> u64 {
    24 * DENSE_LENS * CTL_PRESENT
}
pub fn dense_case(idx: u64, rng: &mut Rng, buf: &mut Vec<u8>) {
    let (vc, fp) = valid_ctl(idx % 24);
    let r = idx / 24;
    let li = r % DENSE_LENS;
    let len = if li <= 1100 { li } else { 65535 - (li - 1101) } as usize;
    let p = r / DENSE_LENS;
    let full = 16 + len;
    let present = match p {
        0 => full,
        1 => full - 1,
        2 => full + 5,
        3 => 16,
        4 => 16 + fam_size(fp >> 4).unwrap_or(0).min(len),
        5 => 16 + len / 2,
        6 => 17.min(full),
        _ => full + 1,
    };
    buf.clear();
    buf.resize(present.max(16), 0);
    let head = buf.len().min(300);
    rng.fill(&mut buf[..head]);
    buf[..12].copy_from_slice(&SIG);
    buf[12] = vc;
    buf[13] = fp;
    buf[14] = (len >> 8) as u8;
    buf[15] = len as u8;
    buf.truncate(present);
}

/// Exhaustive single-field sweep over address blocks: every value of each aligned 16-bit word of
/// an IPv4 (6 words) and an IPv6 (18 words) block, every value of each of the 216 bytes of a
/// Unix block; command, transport, the rest of the block and the TLV section are random.
pub const SWEEP_W4: u64 = 6 * 65536;
pub const SWEEP_W6: u64 = 18 * 65536;
pub const SWEEP_UX: u64 = 216 * 256;
pub fn sweep_count() -> u64 {
    SWEEP_W4 + SWEEP_W6 + SWEEP_UX
}
pub fn sweep_case(idx: u64, rng: &mut Rng, buf: &mut Vec<u8>) {
    let (fam, pos, val, wide) = if idx < SWEEP_W4 {
        (1u8, 2 * (idx / 65536) as usize, (idx % 65536) as u16, true)
    } else if idx < SWEEP_W4 + SWEEP_W6 {
        let j = idx - SWEEP_W4;
        (2u8, 2 * (j / 65536) as usize, (j % 65536) as u16, true)
    } else {
        let j = idx - SWEEP_W4 - SWEEP_W6;
        (3u8, (j / 256) as usize, (j % 256) as u16, false)
    };
    let vc = 0x20 | rng.below(2) as u8;
    let fp = (fam << 4) | rng.below(3) as u8;
    valid_header_budget(rng, buf, vc, fp, Some(40));
    if wide {
        buf[16 + pos] = (val >> 8) as u8;
        buf[16 + pos + 1] = val as u8;
    } else {
        buf[16 + pos] = val as u8;
    }
}

pub fn v2_streams(tier: Tier, unit: u64) -> Vec<StreamSpec> {
    let u = unit;
    vec![
        if tier == Tier::Miri { stream("v2-sweep-s", 100) } else { exhaustive("v2-sweep", sweep_count()) },
        if tier == Tier::Miri { stream("v2-dense-s", 100) } else { exhaustive("v2-dense", dense_count()) },
        if tier == Tier::Miri { stream("v2-ctl-s", 300) } else { exhaustive("v2-ctl", ctl_count()) },
        stream("v2-valid", tier.n(100, 20 * u, 2000 * u)),
        exhaustive("v2-sig", if tier == Tier::Miri { 200 } else { 12 * 255 * 24 + 13 * 256 }),
        stream("v2-cut", tier.n(50, 4 * u, 300 * u)),
        stream("v2-mix", tier.n(50, 4 * u, 300 * u)),
        stream("v2-rand", tier.n(100, 20 * u, 2000 * u)),
        stream("v2-bigbuf", tier.n(2, 160, 3000)),
        // pairs of unrelated headers with equal fingerprints, each in both orders (spec::collide)
        exhaustive("v2-collide", if tier == Tier::Miri { 0 } else { 2 * crate::collide::v2_pairs().len() as u64 }),
    ]
}

/// Case `idx` of a v2 stream, written into `buf`.
pub fn v2_case(stream_name: &str, idx: u64, seed: u64, buf: &mut Vec<u8>) {
    let mut rng = Rng::for_case(seed, stream_id(stream_name), idx);
    let rng = &mut rng;
    match stream_name {
        "v2-collide" => {
            buf.clear();
            buf.extend_from_slice(&crate::collide::v2_case(idx));
        }
        "v2-dense" => dense_case(idx, rng, buf),
        "v2-dense-s" => {
            let i = rng.below(dense_count());
            dense_case(i, rng, buf)
        }
        "v2-sweep" => sweep_case(idx, rng, buf),
        "v2-sweep-s" => {
            let i = rng.below(sweep_count());
            sweep_case(i, rng, buf)
        }
        "v2-ctl" => ctl_case(idx, rng, buf),
        "v2-ctl-s" => {
            let i = rng.below(ctl_count());
            ctl_case(i, rng, buf)
        }
        "v2-valid" => {
            valid_header(rng, buf);
            if rng.chance(1, 3) {
                let t = crate::v1gen::trailers();
                buf.extend_from_slice(rng.pick(&t[..]).as_slice());
            }
        }
        "v2-sig" => {
            // every signature byte replaced by every other value on each valid control pair,
            // then every signature prefix followed by each byte value
            let n1 = 12 * 255 * 24;
            if idx < n1 {
                let pos = (idx % 12) as usize;
                let delta = 1 + ((idx / 12) % 255) as u8;
                let (vc, fp) = valid_ctl(idx / (12 * 255));
                valid_header_with(rng, buf, vc, fp);
                buf[pos] = buf[pos].wrapping_add(delta);
            } else {
                let j = idx - n1;
                let plen = (j / 256) as usize;
                buf.clear();
                buf.extend_from_slice(&SIG[..plen.min(12)]);
                buf.push((j % 256) as u8);
                if rng.coin() {
                    let extra = rng.below(30) as usize;
                    buf.extend(rng.bytes(extra));
                }
            }
        }
        "v2-cut" => {
            valid_header(rng, buf);
            let n = buf.len();
            let cut = match rng.below(4) {
                0 => rng.below(21).min(n as u64) as usize,
                1 => n - 1 - rng.below(3.min(n as u64 - 1)) as usize,
                _ => rng.below(n as u64) as usize,
            };
            buf.truncate(cut);
        }
        "v2-mix" => {
            buf.clear();
            match rng.below(5) {
                0 => {
                    // signature prefix followed by text
                    let k = rng.below(13) as usize;
                    buf.extend_from_slice(&SIG[..k]);
                    buf.extend_from_slice(b"PROXY TCP4 1.2.3.4 5.6.7.8 80 443\r\n");
                }
                1 => {
                    // v1 line followed by a v2 header
                    let mut line = crate::v1gen::valid_body(rng).into_bytes();
                    line.extend_from_slice(b"\r\n");
                    let mut h = Vec::new();
                    valid_header(rng, &mut h);
                    buf.extend_from_slice(&line);
                    buf.extend_from_slice(&h);
                }
                2 => {
                    // v2 header followed by a v1 line
                    valid_header(rng, buf);
                    buf.extend_from_slice(b"PROXY UNKNOWN\r\n");
                }
                3 => {
                    // full signature, then text instead of control bytes
                    buf.extend_from_slice(&SIG);
                    let body = crate::v1gen::valid_body(rng);
                    buf.extend_from_slice(body.as_bytes());
                    buf.extend_from_slice(b"\r\n");
                }
                _ => {
                    // the first bytes of the signature are CR LF: a v1-ish line hidden in it
                    buf.extend_from_slice(b"\r\n\r\n\0\r\nQUIT\nPROXY UNKNOWN\r\n");
                    let cut = rng.below(buf.len() as u64 + 1) as usize;
                    buf.truncate(cut);
                }
            }
        }
        "v2-bigbuf" => {
            // a short header at the front of a receive buffer of more than 64 KiB: sizes around
            // 16 + 65536, 2 x 65536 and beyond (size arithmetic that wraps at 16 bits)
            let (vc, fp) = valid_ctl(idx);
            valid_header_budget(rng, buf, vc, fp, Some(60));
            let total = match rng.below(8) {
                0 => 65551,
                1 => 65552,
                2 => 65553,
                3 => 65536 + 16 + rng.below(600) as usize,
                4 => 65536 + rng.below(16) as usize,
                5 => 131072 + rng.below(700) as usize,
                6 => 65536 * 3 + 16 + rng.below(300) as usize,
                _ => 65000 + rng.below(70000) as usize,
            };
            let fill = rng.u8();
            let old = buf.len();
            if total > old {
                buf.resize(total, fill);
                let n = buf.len();
                rng.fill(&mut buf[old..(old + 64).min(n)]);
            }
        }
        "v2-rand" => {
            // random bytes after a valid signature (and sometimes a valid version nibble)
            buf.clear();
            buf.extend_from_slice(&SIG);
            let n = rng.below(80) as usize;
            buf.extend(rng.bytes(n));
            if buf.len() > 13 && rng.coin() {
                let (vc, fp) = valid_ctl(rng.below(24));
                buf[12] = vc;
                if rng.coin() {
                    buf[13] = fp;
                }
            }
            if buf.len() > 15 && rng.coin() {
                buf[14] = 0;
            }
        }
        _ => buf.clear(),
    }
}

// ---------------------------------------------------------------------------------------------
// TLV section workload

pub fn tlv_streams(tier: Tier, unit: u64) -> Vec<StreamSpec> {
    let u = unit;
    vec![
        if tier == Tier::Miri { stream("tlv-small-s", 300) } else { exhaustive("tlv-small", small_section_count(if tier == Tier::Thorough { 10 } else { 8 })) },
        stream("tlv-wf", tier.n(100, 20 * u, 3000 * u)),
        stream("tlv-sized", tier.n(20, 1 * u, 50 * u)),
        stream("tlv-rand", tier.n(100, 10 * u, 1500 * u)),
        stream("tlv-flood", tier.n(10, u / 50, 20 * u)),
        exhaustive("tlv-types", if tier == Tier::Miri { 64 } else { 256 * (3 + TYPE_LENS.len() as u64) }),
        if tier == Tier::Miri { stream("tlv-lens-s", 20) } else { exhaustive("tlv-lens", len_ladder().len() as u64 * 4) },
    ]
}

/// Value lengths of the dense ladder: every length up to 1100, then 2^k-1, 2^k, 2^k+1 and a few
/// decimal round numbers up to 65535.
pub fn len_ladder() -> Vec<usize> {
    let mut v: Vec<usize> = (0..=1100).collect();
    for k in 11..=16u32 {
        for d in [-2i64, -1, 0, 1, 2] {
            let x = (1i64 << k) + d;
            if x > 1100 && x <= 65535 {
                v.push(x as usize);
            }
        }
    }
    v.extend([1500, 4000, 9999, 10000, 16383 * 3, 30000, 50000, 60000, 65000, 65519, 65520, 65532]);
    v.sort();
    v.dedup();
    v
}

/// value lengths crossed with every type byte in `tlv-types`
pub const TYPE_LENS: [usize; 14] = [2, 4, 5, 8, 16, 31, 32, 64, 127, 128, 129, 255, 256, 1000];

pub const TLV_SIZED: [usize; 8] = [0, 1, 2, 255, 256, 257, 65534, 65535];

pub fn tlv_case(stream_name: &str, idx: u64, seed: u64) -> Vec<u8> {
    let mut rng = Rng::for_case(seed, stream_id(stream_name), idx);
    let rng = &mut rng;
    match stream_name {
        "tlv-small" => small_section(idx),
        "tlv-small-s" => small_section(rng.below(small_section_count(8))),
        "tlv-wf" => {
            let (mut s, _) = any_section(rng, 600);
            if rng.coin() && !s.is_empty() {
                // every truncation point is reachable: cut chosen uniformly
                let cut = rng.below(s.len() as u64 + 1) as usize;
                s.truncate(cut);
            }
            s
        }
        "tlv-flood" => {
            let mut s = tiny_flood(rng, 65535);
            match rng.below(4) {
                0 => {
                    s.pop();
                }
                1 => s.extend_from_slice(&[rng.u8(), 0]),
                _ => {}
            }
            s
        }
        "tlv-sized" => {
            // [prefix items] + one item of a boundary size, exact fit / one short / one extra byte
            let mut s = if rng.coin() { wellformed_section(rng, 40) } else { Vec::new() };
            let l = TLV_SIZED[(idx % TLV_SIZED.len() as u64) as usize];
            s.push(rng.u8());
            s.extend_from_slice(&(l as u16).to_be_bytes());
            let start = s.len();
            s.resize(start + l, 0);
            let head = (start + 64).min(s.len());
            rng.fill(&mut s[start..head]);
            match (idx / TLV_SIZED.len() as u64) % 4 {
                0 => {}
                1 => {
                    s.pop();
                }
                2 => s.push(rng.u8()),
                _ => s.extend_from_slice(&[rng.u8(), 0, 0]),
            }
            s
        }
        "tlv-types" => {
            // every type byte: empty value, one byte, five bytes after another item
            let t = (idx % 256) as u8;
            match idx / 256 {
                0 => vec![t, 0, 0],
                1 => vec![t, 0, 1, rng.u8()],
                k if k >= 3 => {
                    // every type byte x a ladder of value lengths (limits that belong to one type)
                    let l = TYPE_LENS[(k as usize - 3) % TYPE_LENS.len()];
                    let mut s = if rng.coin() { vec![rng.u8(), 0, 1, 7] } else { Vec::new() };
                    s.push(t);
                    s.extend_from_slice(&(l as u16).to_be_bytes());
                    s.extend(rng.bytes(l));
                    if rng.coin() {
                        s.extend_from_slice(&[t, 0, 2, 1, 2]);
                    }
                    s
                }
                _ => {
                    let mut s = vec![rng.u8(), 0, 2, rng.u8(), rng.u8(), t, 0, 5];
                    s.extend(rng.bytes(5));
                    s
                }
            }
        }
        "tlv-lens" | "tlv-lens-s" => {
            // every value length of the dense ladder: exact fit, one byte short, one / three extra
            let ladder = len_ladder();
            let i = if stream_name == "tlv-lens" { idx } else { rng.below(1200 * 4) };
            let l = ladder[(i / 4) as usize % ladder.len()];
            let mut s = if rng.chance(1, 4) { wellformed_section(rng, 20) } else { Vec::new() };
            s.push(if rng.coin() { rng.u8() } else { *rng.pick(&[0x01u8, 0x02, 0x03, 0x04, 0x05, 0x20, 0x21, 0x22, 0x23, 0x24, 0x25, 0x30]) });
            s.extend_from_slice(&(l as u16).to_be_bytes());
            let start = s.len();
            s.resize(start + l, 0);
            let head = (start + 300).min(s.len());
            rng.fill(&mut s[start..head]);
            if let Some(b) = s.last_mut() {
                if l > 0 {
                    *b = 0xA0 | (l as u8 & 0x0F);
                }
            }
            match i % 4 {
                0 => {}
                1 => {
                    s.pop();
                }
                2 => s.push(rng.u8()),
                _ => s.extend_from_slice(&[rng.u8(), 0, 0]),
            }
            s
        }
        "tlv-rand" => {
            let n = match rng.below(40) {
                0 if crate::engine::small() => rng.below(400),
                0 => rng.below(70001),
                1..=4 => rng.below(2000),
                _ => rng.below(64),
            } as usize;
            let mut v = rng.bytes(n);
            // bias length bytes towards small values so that walks get past the first item
            if rng.coin() {
                let mut i = 1;
                while i + 1 < v.len() {
                    v[i] = 0;
                    v[i + 1] %= 9;
                    i += 3 + v[i + 1] as usize;
                }
            }
            v
        }
        _ => Vec::new(),
    }
}

#[cfg(test)]
mod tests {
    #[test]
    fn crc32c_check_value() {
        assert_eq!(super::crc32c(b"123456789"), 0xE306_9283);
    }
}
