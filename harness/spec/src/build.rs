//! Reference encoders for everything the v2 builder can write, the `BuilderModel` state machine
//! that turns a call history into the expected output / failure, and history generators.

use crate::rng::Rng;
use crate::v2::SIG;

/// Registered TLV type codes from the PROXY protocol document (section 2.2), in the order of
/// `ppp::v2::Type`'s variants.
pub const TYPE_CODES: [(&str, u8); 12] = [
    ("ALPN", 0x01),
    ("Authority", 0x02),
    ("CRC32C", 0x03),
    ("NoOp", 0x04),
    ("UniqueId", 0x05),
    ("SSL", 0x20),
    ("SSLVersion", 0x21),
    ("SSLCommonName", 0x22),
    ("SSLCipher", 0x23),
    ("SSLSignatureAlgorithm", 0x24),
    ("SSLKeyAlgorithm", 0x25),
    ("NetworkNamespace", 0x30),
];

pub const MAX_PAYLOAD: usize = 65535;
/// A writer/builder buffer longer than this refuses further writes (16 + 65535).
pub const WRITER_LIMIT: usize = 16 + MAX_PAYLOAD;

/// Deterministic payload bytes: content is a function of (seed, len).
#[derive(Clone, Debug, PartialEq, Eq)]
pub struct Blob {
    pub seed: u64,
    pub len: usize,
}

impl Blob {
    pub fn new(seed: u64, len: usize) -> Blob {
        Blob { seed, len }
    }
    /// seed 0 = all zero, seed 1 = all 0xFF; seeds ending in hex 3 = bytes that look like a v2
    /// header (signature, control bytes, a length field that does not match); seeds ending in hex 7
    /// = a chain of small TLVs with registered, partly repeated types; anything else =
    /// pseudo-random bytes
    pub fn bytes(&self) -> Vec<u8> {
        match self.seed {
            0 => vec![0u8; self.len],
            1 => vec![0xFFu8; self.len],
            s if s & 0xF == 3 => {
                let mut rng = Rng::new(s ^ 0xB10B);
                let mut v = rng.bytes(self.len);
                let mut img = SIG.to_vec();
                img.extend_from_slice(&[0x20 | (rng.below(2) as u8), ((rng.below(4) as u8) << 4) | rng.below(3) as u8]);
                img.extend_from_slice(&(rng.below(300) as u16).to_be_bytes());
                let n = img.len().min(v.len());
                v[..n].copy_from_slice(&img[..n]);
                v
            }
            s if s & 0xF == 7 => {
                let mut rng = Rng::new(s ^ 0xB10B);
                let mut v = Vec::with_capacity(self.len);
                let kinds = [0x01u8, 0x02, 0x03, 0x04, 0x05, 0x20, 0x30, 0x05, 0x30, 0x20];
                let mut last = *rng.pick(&kinds);
                while v.len() + 3 <= self.len {
                    let room = self.len - v.len() - 3;
                    let l = (rng.below(9) as usize).min(room);
                    let k = if rng.chance(1, 3) { last } else { *rng.pick(&kinds) };
                    last = k;
                    v.push(k);
                    v.push(0);
                    v.push(l as u8);
                    for _ in 0..l {
                        v.push(rng.u8());
                    }
                }
                v.resize(self.len, 0);
                v
            }
            _ => Rng::new(self.seed ^ 0xB10B).bytes(self.len),
        }
    }
    pub fn text(&self) -> String {
        format!("s{}x{}", self.seed, self.len)
    }
    pub fn parse(s: &str) -> Option<Blob> {
        let s = s.strip_prefix('s')?;
        let (a, b) = s.split_once('x')?;
        Some(Blob { seed: a.parse().ok()?, len: b.parse().ok()? })
    }
}

#[derive(Clone, Debug, PartialEq, Eq)]
pub enum Addr {
    Unspec,
    V4 { src: [u8; 4], dst: [u8; 4], sp: u16, dp: u16 },
    V6 { src: [u8; 16], dst: [u8; 16], sp: u16, dp: u16 },
    /// the two 108-byte paths are blob(seed).bytes()[..108] and [108..216]
    Unix { seed: u64 },
}

impl Addr {
    pub fn fam(&self) -> u8 {
        match self {
            Addr::Unspec => 0,
            Addr::V4 { .. } => 1,
            Addr::V6 { .. } => 2,
            Addr::Unix { .. } => 3,
        }
    }
    /// Two 108-byte Unix paths derived from `seed`: raw random bytes, or realistic spellings
    /// (filesystem paths, Linux abstract names with a leading NUL, HAProxy address prefixes
    /// such as `unix@` / `abns@`, stale bytes after the terminator, paths that fill the field).
    pub fn unix_paths(seed: u64) -> ([u8; 108], [u8; 108]) {
        let mut rng = Rng::new(seed ^ 0x0517);
        let one = |rng: &mut Rng| -> [u8; 108] {
            let mut p = [0u8; 108];
            const DICT: [&[u8]; 22] = [
                b"/var/run/haproxy.sock", b"/tmp/s", b"unix@/run/app.sock", b"abns@backend", b"unix@", b"abns@", b"\0abstract-name", b"./relative.sock",
                b"unix:/run/x", b"fd@3", b"sockpair@4", b"ipv4@127.0.0.1", b"@", b"/",
                b"/tmp///x.sock", b"////", b"a//b///c////d", b"/run/../run/./x", b"/trailing/slash/", b" /leading-space", b"/tab\there", b"C:\\pipe\\x",
            ];
            match rng.below(8) {
                0 | 1 => rng.fill(&mut p),
                2 | 3 | 4 => {
                    let t = *rng.pick(&DICT);
                    p[..t.len()].copy_from_slice(t);
                    let extra = rng.below(20) as usize;
                    for i in 0..extra {
                        p[t.len() + i] = b'a' + (rng.next() % 26) as u8;
                    }
                    if rng.chance(1, 3) {
                        // stale bytes after the terminator
                        for b in p[t.len() + extra + 1..].iter_mut() {
                            *b = rng.u8();
                        }
                    }
                }
                5 => {
                    p.iter_mut().for_each(|b| *b = b'a' + (rng.next() % 26) as u8);
                    if rng.coin() {
                        // an abstract name that fills the field: leading NUL, no terminator
                        p[0] = 0;
                    }
                }
                6 => {}
                _ => p.iter_mut().for_each(|b| *b = 0xFF),
            }
            p
        };
        let s = one(&mut rng);
        let mut d = one(&mut rng);
        if s == d && seed % 16 != 0 {
            d[107] ^= 0x5A;
        }
        (s, d)
    }
    /// Wire encoding: source address, destination address, source port, destination port,
    /// network byte order; two 108-byte paths for Unix; nothing for unspecified.
    pub fn encode(&self) -> Vec<u8> {
        let mut v = Vec::new();
        match self {
            Addr::Unspec => {}
            Addr::V4 { src, dst, sp, dp } => {
                v.extend_from_slice(src);
                v.extend_from_slice(dst);
                v.push((sp >> 8) as u8);
                v.push(*sp as u8);
                v.push((dp >> 8) as u8);
                v.push(*dp as u8);
            }
            Addr::V6 { src, dst, sp, dp } => {
                v.extend_from_slice(src);
                v.extend_from_slice(dst);
                v.push((sp >> 8) as u8);
                v.push(*sp as u8);
                v.push((dp >> 8) as u8);
                v.push(*dp as u8);
            }
            Addr::Unix { seed } => {
                let (s, d) = Addr::unix_paths(*seed);
                v.extend_from_slice(&s);
                v.extend_from_slice(&d);
            }
        }
        v
    }
    pub fn text(&self) -> String {
        match self {
            Addr::Unspec => "un".into(),
            Addr::V4 { src, dst, sp, dp } => format!("v4.{}.{}.{}.{}", crate::json::hex(src), crate::json::hex(dst), sp, dp),
            Addr::V6 { src, dst, sp, dp } => format!("v6.{}.{}.{}.{}", crate::json::hex(src), crate::json::hex(dst), sp, dp),
            Addr::Unix { seed } => format!("ux.{}", seed),
        }
    }
    pub fn parse(s: &str) -> Option<Addr> {
        let p: Vec<&str> = s.split('.').collect();
        match p[0] {
            "un" => Some(Addr::Unspec),
            "v4" => {
                let a = crate::json::unhex(p.get(1)?)?;
                let b = crate::json::unhex(p.get(2)?)?;
                Some(Addr::V4 { src: a.try_into().ok()?, dst: b.try_into().ok()?, sp: p.get(3)?.parse().ok()?, dp: p.get(4)?.parse().ok()? })
            }
            "v6" => {
                let a = crate::json::unhex(p.get(1)?)?;
                let b = crate::json::unhex(p.get(2)?)?;
                Some(Addr::V6 { src: a.try_into().ok()?, dst: b.try_into().ok()?, sp: p.get(3)?.parse().ok()?, dp: p.get(4)?.parse().ok()? })
            }
            "ux" => Some(Addr::Unix { seed: p.get(1)?.parse().ok()? }),
            _ => None,
        }
    }
    /// Random address value with source != destination in every component.
    pub fn random(rng: &mut Rng, fam: u8) -> Addr {
        match fam {
            1 => {
                let (a, b) = crate::v1gen::rand_v4_pair(rng);
                let (sp, dp) = crate::v1gen::rand_port_pair(rng);
                Addr::V4 { src: a, dst: b, sp, dp }
            }
            2 => {
                let (a, b) = crate::v1gen::rand_v6_pair(rng);
                let (sp, dp) = crate::v1gen::rand_port_pair(rng);
                Addr::V6 { src: crate::v1gen::bytes_of(a), dst: crate::v1gen::bytes_of(b), sp, dp }
            }
            3 => Addr::Unix { seed: rng.next() >> 8 },
            _ => Addr::Unspec,
        }
    }
}

#[derive(Clone, Debug, PartialEq)]
pub enum Val {
    U8(u8),
    U16(u16),
    U32(u32),
    U64(u64),
    U128(u128),
    Usize(usize),
    I8(i8),
    I16(i16),
    I32(i32),
    I64(i64),
    I128(i128),
    Isize(isize),
    /// `&[u8]`
    Bytes(Blob),
    Addr(Addr),
    /// `TypeLengthValue::new(kind, value)`
    TlvStruct(u8, Blob),
    /// `TypeLengthValue::new(kind, value).to_owned()` (value held in a `Cow::Owned`)
    TlvOwned(u8, Blob),
    /// `(u8, &[u8])`
    TlvTuple(u8, Blob),
    /// `(Type, &[u8])`, index into TYPE_CODES
    TlvTupleType(usize, Blob),
    /// `TypeLengthValues::from(bytes)`
    Section(Blob),
    /// `TypeLengthValues::from(bytes)` whose iterator was advanced `k` times before being written:
    /// the value is still the whole section
    SectionAdv(Blob, u8),
    /// `Type`, index into TYPE_CODES
    Type(usize),
    /// a caller-defined `WriteToHeader` implementation that appends these bytes; `mode` says how:
    /// 0 = one write, honest count; 1 = one write, reports 0; 2 = one write, reports len + 7;
    /// 3 = byte-at-a-time writes, reports the number of write calls made; 4 = two halves, reports
    /// only the second half; 5 = the bytes are held in a fixed-size array and written with
    /// method-call syntax on the array. What the builder emits must not depend on the reported number.
    Custom(Blob, u8),
}

/// Big-endian bytes of the low `width` bytes of a two's complement value.
fn be(v: u128, width: usize) -> Vec<u8> {
    (0..width).rev().map(|i| (v >> (8 * i)) as u8).collect()
}

fn tlv(kind: u8, value: &[u8]) -> Result<Vec<u8>, ()> {
    if value.len() > MAX_PAYLOAD {
        return Err(());
    }
    let mut v = Vec::with_capacity(3 + value.len());
    v.push(kind);
    v.push((value.len() >> 8) as u8);
    v.push(value.len() as u8);
    v.extend_from_slice(value);
    Ok(v)
}

impl Val {
    /// The wire encoding, or Err(()) when the value must be refused (a single TLV value or byte
    /// slice longer than 65535 bytes).
    pub fn encode(&self) -> Result<Vec<u8>, ()> {
        Ok(match self {
            Val::U8(x) => be(*x as u128, 1),
            Val::U16(x) => be(*x as u128, 2),
            Val::U32(x) => be(*x as u128, 4),
            Val::U64(x) => be(*x as u128, 8),
            Val::U128(x) => be(*x, 16),
            Val::Usize(x) => be(*x as u128, std::mem::size_of::<usize>()),
            Val::I8(x) => be(*x as u128, 1),
            Val::I16(x) => be(*x as u128, 2),
            Val::I32(x) => be(*x as u128, 4),
            Val::I64(x) => be(*x as u128, 8),
            Val::I128(x) => be(*x as u128, 16),
            Val::Isize(x) => be(*x as u128, std::mem::size_of::<isize>()),
            Val::Bytes(b) => {
                if b.len > MAX_PAYLOAD {
                    return Err(());
                }
                b.bytes()
            }
            Val::Addr(a) => a.encode(),
            Val::TlvStruct(k, b) | Val::TlvTuple(k, b) | Val::TlvOwned(k, b) => tlv(*k, &b.bytes())?,
            Val::TlvTupleType(t, b) => tlv(TYPE_CODES[*t].1, &b.bytes())?,
            Val::Section(b) | Val::SectionAdv(b, _) => b.bytes(),
            Val::Type(t) => vec![TYPE_CODES[*t].1],
            // mode 5 hands its bytes to the byte-slice encoder: the 65535-byte limit applies
            Val::Custom(b, 5) if b.len > MAX_PAYLOAD => return Err(()),
            Val::Custom(b, _) => b.bytes(),
        })
    }

    pub fn kind(&self) -> &'static str {
        match self {
            Val::U8(_) => "u8",
            Val::U16(_) => "u16",
            Val::U32(_) => "u32",
            Val::U64(_) => "u64",
            Val::U128(_) => "u128",
            Val::Usize(_) => "usize",
            Val::I8(_) => "i8",
            Val::I16(_) => "i16",
            Val::I32(_) => "i32",
            Val::I64(_) => "i64",
            Val::I128(_) => "i128",
            Val::Isize(_) => "isize",
            Val::Bytes(_) => "bytes",
            Val::Addr(_) => "addr",
            Val::TlvStruct(..) => "tlv",
            Val::TlvOwned(..) => "tlv-owned",
            Val::TlvTuple(..) => "tuple",
            Val::TlvTupleType(..) => "tuplet",
            Val::Section(_) => "section",
            Val::SectionAdv(..) => "section-advanced",
            Val::Type(_) => "type",
            Val::Custom(..) => "custom-impl",
        }
    }

    pub fn text(&self) -> String {
        match self {
            Val::U8(x) => format!("u8,{}", x),
            Val::U16(x) => format!("u16,{}", x),
            Val::U32(x) => format!("u32,{}", x),
            Val::U64(x) => format!("u64,{}", x),
            Val::U128(x) => format!("u128,{}", x),
            Val::Usize(x) => format!("usize,{}", x),
            Val::I8(x) => format!("i8,{}", x),
            Val::I16(x) => format!("i16,{}", x),
            Val::I32(x) => format!("i32,{}", x),
            Val::I64(x) => format!("i64,{}", x),
            Val::I128(x) => format!("i128,{}", x),
            Val::Isize(x) => format!("isize,{}", x),
            Val::Bytes(b) => format!("bytes,{}", b.text()),
            Val::Addr(a) => format!("addr,{}", a.text()),
            Val::TlvStruct(k, b) => format!("tlv,{},{}", k, b.text()),
            Val::TlvOwned(k, b) => format!("tlvowned,{},{}", k, b.text()),
            Val::TlvTuple(k, b) => format!("tuple,{},{}", k, b.text()),
            Val::TlvTupleType(t, b) => format!("tuplet,{},{}", t, b.text()),
            Val::Section(b) => format!("section,{}", b.text()),
            Val::SectionAdv(b, k) => format!("sectionadv,{},{}", b.text(), k),
            Val::Type(t) => format!("type,{}", t),
            Val::Custom(b, m) => format!("custom,{},{}", b.text(), m),
        }
    }

    pub fn parse(s: &str) -> Option<Val> {
        let p: Vec<&str> = s.split(',').collect();
        let a = *p.get(1)?;
        Some(match p[0] {
            "u8" => Val::U8(a.parse().ok()?),
            "u16" => Val::U16(a.parse().ok()?),
            "u32" => Val::U32(a.parse().ok()?),
            "u64" => Val::U64(a.parse().ok()?),
            "u128" => Val::U128(a.parse().ok()?),
            "usize" => Val::Usize(a.parse().ok()?),
            "i8" => Val::I8(a.parse().ok()?),
            "i16" => Val::I16(a.parse().ok()?),
            "i32" => Val::I32(a.parse().ok()?),
            "i64" => Val::I64(a.parse().ok()?),
            "i128" => Val::I128(a.parse().ok()?),
            "isize" => Val::Isize(a.parse().ok()?),
            "bytes" => Val::Bytes(Blob::parse(a)?),
            "addr" => Val::Addr(Addr::parse(a)?),
            "tlv" => Val::TlvStruct(a.parse().ok()?, Blob::parse(p.get(2)?)?),
            "tlvowned" => Val::TlvOwned(a.parse().ok()?, Blob::parse(p.get(2)?)?),
            "tuple" => Val::TlvTuple(a.parse().ok()?, Blob::parse(p.get(2)?)?),
            "tuplet" => Val::TlvTupleType(a.parse().ok()?, Blob::parse(p.get(2)?)?),
            "section" => Val::Section(Blob::parse(a)?),
            "sectionadv" => Val::SectionAdv(Blob::parse(a)?, p.get(2)?.parse().ok()?),
            "type" => Val::Type(a.parse().ok()?),
            "custom" => Val::Custom(Blob::parse(a)?, p.get(2)?.parse().ok()?),
            _ => return None,
        })
    }
}

#[derive(Clone, Debug, PartialEq)]
pub enum Op {
    Reserve(usize),
    SetLength(Option<u16>),
    /// write_payload(value)
    Write(Val),
    /// write_tlv(kind as u8, value)
    WriteTlv(u8, Blob),
    /// write_tlv(Type, value)
    WriteTlvType(usize, Blob),
    /// write_payloads(values)
    Batch(Vec<Val>),
}

#[derive(Clone, Debug, PartialEq)]
pub enum Ctor {
    /// Builder::new(version_command, address_family_protocol)
    New(u8, u8),
    /// Builder::with_addresses(version_command, transport (0..=2), addresses)
    WithAddr(u8, u8, Addr),
}

#[derive(Clone, Debug, PartialEq)]
pub struct History {
    pub ctor: Ctor,
    pub ops: Vec<Op>,
}

impl Op {
    pub fn text(&self) -> String {
        match self {
            Op::Reserve(n) => format!("R,{}", n),
            Op::SetLength(Some(v)) => format!("L,{}", v),
            Op::SetLength(None) => "L,-".into(),
            Op::Write(v) => format!("W,{}", v.text()),
            Op::WriteTlv(k, b) => format!("T,{},{}", k, b.text()),
            Op::WriteTlvType(t, b) => format!("Y,{},{}", t, b.text()),
            Op::Batch(vs) => format!("B{}", vs.iter().map(|v| format!("/{}", v.text())).collect::<String>()),
        }
    }
    pub fn parse(s: &str) -> Option<Op> {
        if let Some(rest) = s.strip_prefix('B') {
            let mut vs = Vec::new();
            for part in rest.split('/').skip(1) {
                vs.push(Val::parse(part)?);
            }
            return Some(Op::Batch(vs));
        }
        let (head, rest) = s.split_once(',')?;
        Some(match head {
            "R" => Op::Reserve(rest.parse().ok()?),
            "L" => Op::SetLength(if rest == "-" { None } else { Some(rest.parse().ok()?) }),
            "W" => Op::Write(Val::parse(rest)?),
            "T" => {
                let (k, b) = rest.split_once(',')?;
                Op::WriteTlv(k.parse().ok()?, Blob::parse(b)?)
            }
            "Y" => {
                let (k, b) = rest.split_once(',')?;
                Op::WriteTlvType(k.parse().ok()?, Blob::parse(b)?)
            }
            _ => return None,
        })
    }
    /// op kind for class names / skeletons
    pub fn kind(&self) -> String {
        match self {
            Op::Reserve(_) => "reserve".into(),
            Op::SetLength(Some(_)) => "len=some".into(),
            Op::SetLength(None) => "len=none".into(),
            Op::Write(v) => format!("w:{}", v.kind()),
            Op::WriteTlv(..) => "write_tlv".into(),
            Op::WriteTlvType(..) => "write_tlv:type".into(),
            Op::Batch(vs) => format!("batch[{}]", vs.len()),
        }
    }
}

impl History {
    pub fn text(&self) -> String {
        let c = match &self.ctor {
            Ctor::New(a, b) => format!("N,{},{}", a, b),
            Ctor::WithAddr(a, t, ad) => format!("A,{},{},{}", a, t, ad.text()),
        };
        let mut s = c;
        for op in &self.ops {
            s.push('|');
            s.push_str(&op.text());
        }
        s
    }
    pub fn parse(s: &str) -> Option<History> {
        let mut parts = s.split('|');
        let c = parts.next()?;
        let cp: Vec<&str> = c.splitn(4, ',').collect();
        let ctor = match cp[0] {
            "N" => Ctor::New(cp.get(1)?.parse().ok()?, cp.get(2)?.parse().ok()?),
            "A" => Ctor::WithAddr(cp.get(1)?.parse().ok()?, cp.get(2)?.parse().ok()?, Addr::parse(cp.get(3)?)?),
            _ => return None,
        };
        let mut ops = Vec::new();
        for p in parts {
            ops.push(Op::parse(p)?);
        }
        Some(History { ctor, ops })
    }
    pub fn skeleton(&self) -> String {
        let c = match &self.ctor {
            Ctor::New(..) => "new",
            Ctor::WithAddr(..) => "with_addresses",
        };
        let mut s = c.to_string();
        for op in &self.ops {
            s.push('>');
            s.push_str(&op.kind());
        }
        s
    }
}

// ---------------------------------------------------------------------------------------------
// BuilderModel

#[derive(Clone, Copy, PartialEq, Eq, Debug)]
pub enum Step {
    /// the call must succeed as far as C07/C20 are concerned; C09/C10 only say what follows if
    /// it does
    Ok,
    /// the call must fail (single value too large for a 16-bit length)
    MustFail,
    /// buffer beyond the size the writer accepts: either outcome is allowed
    Either,
}

#[derive(Clone, Debug)]
pub struct Model {
    /// expected buffer: signature, control bytes, 2 length bytes (zero here), address block,
    /// payloads in call order
    pub out: Vec<u8>,
    pub explicit: Option<u16>,
}

#[derive(Clone, PartialEq, Eq, Debug)]
pub enum BuildExpect {
    /// expected bytes if build succeeds
    Bytes(Vec<u8>),
    /// build must fail: no explicit length and more than 65535 payload bytes
    MustFail,
}

impl Model {
    pub fn new(ctor: &Ctor) -> Model {
        let mut out = SIG.to_vec();
        match ctor {
            Ctor::New(vc, fp) => {
                out.push(*vc);
                out.push(*fp);
                out.extend_from_slice(&[0, 0]);
            }
            Ctor::WithAddr(vc, tr, addr) => {
                out.push(*vc);
                out.push((addr.fam() << 4) | tr);
                out.extend_from_slice(&[0, 0]);
                out.extend_from_slice(&addr.encode());
            }
        }
        Model { out, explicit: None }
    }

    fn append(&mut self, val: &Val) -> Step {
        match val.encode() {
            Err(()) => Step::MustFail,
            Ok(bytes) => {
                self.out.extend_from_slice(&bytes);
                if self.out.len() > WRITER_LIMIT {
                    Step::Either
                } else {
                    Step::Ok
                }
            }
        }
    }

    /// Applies one call. On `MustFail` the model state is meaningless afterwards (the builder is
    /// consumed by a failing call).
    pub fn apply(&mut self, op: &Op) -> Step {
        match op {
            Op::Reserve(_) => Step::Ok,
            Op::SetLength(l) => {
                self.explicit = *l;
                Step::Ok
            }
            Op::Write(v) => self.append(v),
            Op::WriteTlv(k, b) => self.append(&Val::TlvStruct(*k, b.clone())),
            Op::WriteTlvType(t, b) => self.append(&Val::TlvStruct(TYPE_CODES[*t].1, b.clone())),
            Op::Batch(vs) => {
                let mut worst = Step::Ok;
                for v in vs {
                    match self.append(v) {
                        Step::MustFail => return Step::MustFail,
                        Step::Either => worst = Step::Either,
                        Step::Ok => {}
                    }
                }
                worst
            }
        }
    }

    pub fn payload_len(&self) -> usize {
        self.out.len() - 16
    }

    pub fn build(&self) -> BuildExpect {
        let field = match self.explicit {
            Some(v) => v,
            None => {
                if self.payload_len() > MAX_PAYLOAD {
                    return BuildExpect::MustFail;
                }
                self.payload_len() as u16
            }
        };
        let mut out = self.out.clone();
        out[14] = (field >> 8) as u8;
        out[15] = field as u8;
        BuildExpect::Bytes(out)
    }
}

// ---------------------------------------------------------------------------------------------
// value and history generators

pub const SIZES: [usize; 24] = [
    0, 0, 1, 1, 2, 3, 3, 5, 12, 36, 216, 255, 256, 257, 4096, 30000, 65519, 65520, 65532, 65533, 65534, 65535, 65536, 70000,
];

fn small_size(rng: &mut Rng) -> usize {
    match rng.below(16) {
        0..=8 => *rng.pick(&[0usize, 1, 2, 3, 4, 4, 5, 8, 12, 16, 36, 255, 256]),
        // every length up to 300 (an encoder with a stack buffer or a fast path has its own limits)
        9..=13 => rng.below(301) as usize,
        14 => {
            let k = rng.range(3, 12);
            (1usize << k) + rng.below(3) as usize - 1
        }
        _ => rng.below(2000) as usize,
    }
}

pub fn rand_blob(rng: &mut Rng, big_ok: bool) -> Blob {
    let len = if big_ok && rng.chance(1, 6) { *rng.pick(&SIZES) } else { small_size(rng) };
    let seed = match rng.below(8) {
        0 => 0,
        1 => 1,
        _ => (rng.next() >> 16) | 2,
    };
    Blob::new(seed, len)
}

pub fn rand_int(rng: &mut Rng) -> Val {
    let pat: u128 = match rng.below(8) {
        0 => 0,
        1 => 1,
        2 => u128::MAX,
        3 => 0xAAAA_AAAA_AAAA_AAAA_AAAA_AAAA_AAAA_AAAA,
        4 => 0x5555_5555_5555_5555_5555_5555_5555_5555,
        5 => 1u128 << 127 | 1u128 << 63 | 1u128 << 31 | 1 << 15 | 1 << 7,
        6 => 0x0102_0304_0506_0708_090A_0B0C_0D0E_0F10,
        _ => ((rng.next() as u128) << 64) | rng.next() as u128,
    };
    match rng.below(12) {
        0 => Val::U8(pat as u8),
        1 => Val::U16(pat as u16),
        2 => Val::U32(pat as u32),
        3 => Val::U64(pat as u64),
        4 => Val::U128(pat),
        5 => Val::Usize(pat as usize),
        6 => Val::I8(pat as i8),
        7 => Val::I16(pat as i16),
        8 => Val::I32(pat as i32),
        9 => Val::I64(pat as i64),
        10 => Val::I128(pat as i128),
        _ => Val::Isize(pat as isize),
    }
}

/// A TLV type byte: half of the time one of the registered codes.
pub fn tlv_kind(rng: &mut Rng) -> u8 {
    if rng.coin() {
        TYPE_CODES[rng.below(12) as usize].1
    } else {
        rng.u8()
    }
}

pub fn rand_val(rng: &mut Rng, big_ok: bool) -> Val {
    if rng.chance(1, 24) {
        let mut b = rand_blob(rng, false);
        b.len = b.len.min(4096);
        let mode = rng.below(6) as u8;
        if mode == 5 {
            b.len = *rng.pick(&[3usize, 300, 65535, 65536, 65536]);
        }
        return Val::Custom(b, mode);
    }
    match rng.below(14) {
        0..=3 => rand_int(rng),
        4 | 5 => Val::Bytes(rand_blob(rng, big_ok)),
        6 => {
            let f = rng.below(4) as u8;
            Val::Addr(Addr::random(rng, f))
        }
        7 => Val::TlvStruct(tlv_kind(rng), rand_blob(rng, big_ok)),
        8 => {
            if rng.coin() {
                Val::TlvStruct(tlv_kind(rng), rand_blob(rng, big_ok))
            } else {
                Val::TlvOwned(tlv_kind(rng), rand_blob(rng, big_ok))
            }
        }
        9 => Val::TlvTuple(tlv_kind(rng), rand_blob(rng, big_ok)),
        10 => Val::TlvTupleType(rng.below(12) as usize, rand_blob(rng, big_ok)),
        11 => {
            let mut b = rand_blob(rng, big_ok);
            if b.len > 70000 {
                b.len = 70000;
            }
            if rng.coin() {
                Val::Section(b)
            } else {
                Val::SectionAdv(b, rng.below(4) as u8 + 1)
            }
        }
        _ => Val::Type(rng.below(12) as usize),
    }
}

pub fn rand_ctor(rng: &mut Rng) -> Ctor {
    if rng.coin() {
        let (vc, fp) = if rng.coin() { crate::v2::valid_ctl(rng.below(24)) } else { (rng.u8(), rng.u8()) };
        Ctor::New(vc, fp)
    } else {
        let vc = if rng.chance(3, 4) { 0x20 | rng.below(2) as u8 } else { rng.u8() };
        let tr = rng.below(3) as u8;
        let f = rng.below(4) as u8;
        Ctor::WithAddr(vc, tr, Addr::random(rng, f))
    }
}

pub fn rand_op(rng: &mut Rng, big_ok: bool) -> Op {
    match rng.below(16) {
        0 | 1 => Op::Reserve(*rng.pick(&[0usize, 1, 5, 216, 65536, 1 << 20])),
        2 | 3 => Op::SetLength(if rng.chance(1, 3) { None } else { Some(*rng.pick(&[0u16, 1, 5, 12, 255, 256, 700, 65535])) }),
        4..=9 => Op::Write(rand_val(rng, big_ok)),
        10 | 11 => Op::WriteTlv(tlv_kind(rng), rand_blob(rng, big_ok)),
        12 => Op::WriteTlvType(rng.below(12) as usize, rand_blob(rng, big_ok)),
        _ => {
            let n = rng.below(5);
            Op::Batch(
                (0..n)
                    .map(|_| {
                        let big = big_ok && rng.chance(1, 3);
                        rand_val(rng, big)
                    })
                    .collect(),
            )
        }
    }
}

/// Random history; about one in three contains payloads large enough to reach the 65535 limit.
pub fn rand_history(rng: &mut Rng) -> History {
    let ctor = rand_ctor(rng);
    let big = rng.chance(1, 3);
    let n = rng.below(13);
    let mut ops: Vec<Op> = (0..n).map(|_| rand_op(rng, big)).collect();
    // forced set_length placements (C09): before the first write, between writes, last, repeated
    match rng.below(9) {
        0 => ops.insert(0, Op::SetLength(Some(rng.u16()))),
        1 => ops.push(Op::SetLength(Some(rng.u16()))),
        2 => {
            ops.push(Op::SetLength(Some(rng.u16())));
            ops.push(Op::SetLength(None));
        }
        3 => {
            ops.insert(0, Op::SetLength(Some(rng.u16())));
            ops.push(Op::Write(rand_int(rng)));
            ops.push(Op::SetLength(Some(rng.u16())));
        }
        4 => {
            ops.insert(0, Op::SetLength(Some(rng.u16())));
            ops.push(Op::Write(rand_int(rng)));
            ops.push(Op::SetLength(None));
        }
        5 => {
            let at = rng.below(ops.len() as u64 + 1) as usize;
            ops.insert(at, Op::SetLength(Some(rng.u16())));
        }
        6 => {
            // an explicit length that happens to equal (or nearly equal) the bytes written so far
            let at = rng.below(ops.len() as u64 + 1) as usize;
            let mut m = Model::new(&ctor);
            let mut ok = true;
            for op in &ops[..at] {
                ok &= m.apply(op) != Step::MustFail;
            }
            if ok && m.payload_len() <= MAX_PAYLOAD {
                let x = (m.payload_len() as i64 + rng.range(0, 2) as i64 - 1).clamp(0, 65535) as u16;
                ops.insert(at, Op::SetLength(Some(x)));
                ops.push(Op::Write(rand_int(rng)));
            }
        }
        _ => {}
    }
    if rng.chance(1, 12) {
        // writes that add nothing (empty slice, empty batch, empty section) between set_length calls
        let at = rng.below(ops.len() as u64 + 1) as usize;
        let empty = match rng.below(3) {
            0 => Op::Write(Val::Bytes(Blob::new(2, 0))),
            1 => Op::Batch(vec![]),
            _ => Op::Write(Val::Section(Blob::new(2, 0))),
        };
        ops.insert(at, empty);
    }
    History { ctor, ops }
}

/// A builder pushed beyond the size the writer accepts (explicit length in force, more than
/// 65551 bytes in the buffer), followed by one small write of every kind: whatever the writer
/// then does, it must not report success for bytes it did not append.
pub fn overfull_history(rng: &mut Rng) -> History {
    let ctor = rand_ctor(rng);
    let mut ops = vec![Op::SetLength(Some(rng.u16()))];
    let chunks = rng.range(2, 3);
    for _ in 0..chunks {
        ops.push(Op::Write(Val::Bytes(Blob::new((rng.next() >> 16) | 2, rng.range(30_000, 65_535) as usize))));
    }
    for _ in 0..rng.range(1, 4) {
        ops.push(match rng.below(6) {
            0 => Op::Write(Val::Type(rng.below(12) as usize)),
            1 => Op::Batch(vec![Val::Type(rng.below(12) as usize), Val::U8(rng.u8())]),
            2 => Op::Write(rand_int(rng)),
            3 => Op::WriteTlv(tlv_kind(rng), rand_blob(rng, false)),
            4 => Op::Write(Val::Bytes(rand_blob(rng, false))),
            _ => Op::Write(Val::Addr(Addr::random(rng, 1))),
        });
    }
    History { ctor, ops }
}

/// History whose payload total lands around the 65535 boundary: `delta` bytes relative to it.
pub fn boundary_history(rng: &mut Rng) -> History {
    let ctor = rand_ctor(rng);
    let base = Model::new(&ctor).payload_len();
    let delta = rng.range(0, 6) as i64 - 3; // -3..=3
    let target = (MAX_PAYLOAD as i64 + delta) as usize - base;
    // split target into 1..4 writes of kinds whose size we control
    let mut ops = Vec::new();
    let mut left = target;
    let parts = rng.range(1, 4);
    for i in 0..parts {
        let take = if i + 1 == parts { left } else { rng.below(left as u64 + 1) as usize };
        left -= take;
        if take >= 3 && rng.coin() {
            ops.push(Op::WriteTlv(rng.u8(), Blob::new(rng.next() >> 16, take - 3)));
        } else if take <= MAX_PAYLOAD && rng.coin() {
            ops.push(Op::Write(Val::Bytes(Blob::new(rng.next() >> 16, take))));
        } else {
            ops.push(Op::Write(Val::Section(Blob::new(rng.next() >> 16, take))));
        }
        if rng.chance(1, 4) {
            ops.push(Op::Reserve(*rng.pick(&[0usize, 1, 65536])));
        }
    }
    if rng.chance(1, 4) {
        let at = rng.below(ops.len() as u64 + 1) as usize;
        ops.insert(at, Op::SetLength(if rng.coin() { Some(rng.u16()) } else { None }));
    }
    History { ctor, ops }
}

/// Long chain of small writes (ordering / duplication).
pub fn chain_history(rng: &mut Rng) -> History {
    let ctor = rand_ctor(rng);
    if rng.chance(1, 12) && !crate::engine::small() {
        // one batch of very many very small items (a TLV list handed over piecewise: type byte,
        // length, value): 20 000 .. 33 000 items, well within the size limit
        let n = rng.range(20_000, 33_000);
        let items: Vec<Val> = (0..n)
            .map(|i| match i % 3 {
                0 => Val::U8(i as u8),
                1 => Val::U8(0),
                _ => if i % 9 == 2 { Val::Bytes(Blob::new(2, 0)) } else { Val::U8((i >> 4) as u8) },
            })
            .collect();
        return History { ctor, ops: vec![Op::Batch(items)] };
    }
    let n = rng.range(20, 200);
    let mut ops = Vec::new();
    for i in 0..n {
        ops.push(match rng.below(6) {
            0 => Op::Write(Val::U16(i as u16)),
            1 => Op::Reserve(*rng.pick(&[0usize, 1, 5, 216])),
            2 => Op::Batch(vec![Val::U8(i as u8), Val::U8((i >> 8) as u8 ^ 0x55)]),
            _ => Op::Write(Val::U8(i as u8)),
        });
    }
    History { ctor, ops }
}

/// The 11-op alphabet of the exhaustive short histories.
pub fn alphabet_op(i: u64) -> Op {
    match i {
        0 => Op::SetLength(Some(5)),
        1 => Op::SetLength(Some(700)),
        2 => Op::SetLength(None),
        3 => Op::Write(Val::U8(0xA7)),
        4 => Op::Write(Val::Bytes(Blob::new(4, 65535))),
        5 => Op::WriteTlv(0x04, Blob::new(5, 3)),
        6 => Op::Reserve(100),
        7 => Op::Write(Val::Addr(Addr::V4 { src: [1, 2, 3, 4], dst: [5, 6, 7, 8], sp: 0x1234, dp: 0x5678 })),
        8 => Op::Batch(vec![Val::U16(0xBEEF), Val::TlvTuple(0x30, Blob::new(8, 2))]),
        9 => Op::Write(Val::Bytes(Blob::new(9, 0))),
        _ => Op::Batch(vec![]),
    }
}

pub const ALPHABET: u64 = 11;

pub fn short_history_count(max_len: u32) -> u64 {
    2 * (0..=max_len).map(|k| ALPHABET.pow(k)).sum::<u64>()
}

pub fn short_history(idx: u64) -> History {
    let ctor = if idx % 2 == 0 {
        Ctor::New(0x21, 0x11)
    } else {
        Ctor::WithAddr(0x21, 1, Addr::V6 { src: [0x11; 16], dst: [0x22; 16], sp: 0x0102, dp: 0x0304 })
    };
    let mut idx = idx / 2;
    let mut len = 0u32;
    while idx >= ALPHABET.pow(len) {
        idx -= ALPHABET.pow(len);
        len += 1;
    }
    let mut ops = Vec::new();
    for _ in 0..len {
        ops.push(alphabet_op(idx % ALPHABET));
        idx /= ALPHABET;
    }
    History { ctor, ops }
}


// ---------------------------------------------------------------------------------------------
// dense value lengths and history siblings

/// hist-lens: one payload of every length of the dense ladder through each encoder kind.
pub const LENS_KINDS: u64 = 7;
pub fn lens_history_count() -> u64 {
    crate::v2::len_ladder().len() as u64 * LENS_KINDS
}
pub fn lens_history(idx: u64, rng: &mut Rng) -> History {
    let ladder = crate::v2::len_ladder();
    let l = ladder[(idx / LENS_KINDS) as usize % ladder.len()];
    let blob = Blob::new((rng.next() >> 16) | 2, l);
    let k = tlv_kind(rng);
    let val = match idx % LENS_KINDS {
        0 => Op::Write(Val::TlvStruct(k, blob)),
        1 => Op::Write(Val::TlvOwned(k, blob)),
        2 => Op::Write(Val::TlvTuple(k, blob)),
        3 => Op::Write(Val::TlvTupleType(rng.below(12) as usize, blob)),
        4 => Op::WriteTlv(k, blob),
        5 => Op::Write(Val::Bytes(blob)),
        _ => Op::Batch(vec![Val::U8(7), Val::TlvStruct(k, blob), Val::U16(0xBEEF)]),
    };
    let ctor = if rng.coin() { Ctor::New(0x21, 0x00) } else { rand_ctor(rng) };
    let mut ops = vec![val];
    if rng.chance(1, 3) {
        ops.insert(0, Op::Write(rand_int(rng)));
    }
    if rng.chance(1, 3) {
        ops.push(Op::Write(rand_int(rng)));
    }
    History { ctor, ops }
}

/// Encoded size of what an op appends (None when it must be refused).
pub fn op_len(op: &Op) -> Option<usize> {
    match op {
        Op::Reserve(_) | Op::SetLength(_) => Some(0),
        Op::Write(v) => v.encode().ok().map(|e| e.len()),
        Op::WriteTlv(_, b) | Op::WriteTlvType(_, b) => {
            if b.len <= MAX_PAYLOAD {
                Some(3 + b.len)
            } else {
                None
            }
        }
        Op::Batch(vs) => {
            let mut n = 0;
            for v in vs {
                n += v.encode().ok()?.len();
            }
            Some(n)
        }
    }
}

/// Relations between calls that a generator of independent random calls hardly ever produces:
/// capacity reservations that add up exactly to what is written (one up front, or one before
/// each write), the same call twice in a row, the constructor's address value written once more
/// as the first payload.
pub fn decorate_history(h: &mut History, rng: &mut Rng) {
    match rng.below(5) {
        0 => {
            let sum: usize = h.ops.iter().filter_map(op_len).sum();
            if rng.coin() || sum < 2 {
                h.ops.insert(0, Op::Reserve(sum));
            } else {
                let a = rng.below(sum as u64) as usize;
                h.ops.insert(0, Op::Reserve(sum - a));
                h.ops.insert(0, Op::Reserve(a));
            }
        }
        1 => {
            let mut ops = Vec::new();
            for op in h.ops.drain(..) {
                if let Some(n) = op_len(&op) {
                    if n > 0 {
                        ops.push(Op::Reserve(n));
                    }
                }
                ops.push(op);
            }
            h.ops = ops;
        }
        2 | 3 => {
            if !h.ops.is_empty() {
                let i = rng.below(h.ops.len() as u64) as usize;
                let dup = h.ops[i].clone();
                h.ops.insert(i, dup);
            }
        }
        _ => {
            if let Ctor::WithAddr(_, _, a) = &h.ctor {
                let again = Op::Write(Val::Addr(a.clone()));
                h.ops.insert(0, again);
            }
        }
    }
}

/// Histories related to `h`, to be run right after it on the same thread: building is specified
/// as a function of the call history of *this* builder, so nothing may carry over from a builder
/// that was constructed with the same arguments, or from a call that failed.
pub fn history_siblings(h: &History, rng: &mut Rng) -> Vec<History> {
    let mut v = Vec::new();
    let x = *rng.pick(&[7u16, 0, 1, 65535, 300]);
    // same constructor arguments, nothing written, explicit length / no explicit length
    v.push(History { ctor: h.ctor.clone(), ops: vec![Op::SetLength(Some(x))] });
    v.push(History { ctor: h.ctor.clone(), ops: vec![] });
    // the same calls without / with other explicit lengths
    if h.ops.iter().any(|o| matches!(o, Op::SetLength(_))) {
        v.push(History { ctor: h.ctor.clone(), ops: h.ops.iter().filter(|o| !matches!(o, Op::SetLength(_))).cloned().collect() });
        v.push(History {
            ctor: h.ctor.clone(),
            ops: h.ops.iter().map(|o| if let Op::SetLength(Some(l)) = o { Op::SetLength(Some(l.wrapping_add(1))) } else { o.clone() }).collect(),
        });
    } else {
        let mut ops = h.ops.clone();
        let at = rng.below(ops.len() as u64 + 1) as usize;
        ops.insert(at, Op::SetLength(Some(x)));
        v.push(History { ctor: h.ctor.clone(), ops });
    }
    // a batch that fails part-way, then an ordinary batch
    v.push(History { ctor: h.ctor.clone(), ops: vec![Op::Batch(vec![Val::U32(0xA1B2C3D4), Val::TlvStruct(9, Blob::new(5, 3)), Val::Bytes(Blob::new(0, 65536))])] });
    v.push(History { ctor: h.ctor.clone(), ops: vec![Op::Batch(vec![Val::U16(0x0102), Val::TlvTuple(4, Blob::new(6, 2))])] });
    v.push(h.clone());
    v
}
