//! What a monitor observed: event counts, distinct cases, observation classes with one sample
//! each, and violations.  One `Recorder` per worker thread; merged at the end of a run.

use crate::json::Json;
use std::collections::{BTreeMap, HashSet};

#[derive(Clone, Debug)]
pub struct Violation {
    /// monitor rule that fired (stable name; part of the known-findings signature)
    pub rule: String,
    /// encoded case (`kind:payload`, see Monitor::replay) – enough to re-execute it
    pub case: String,
    /// human readable: what the oracle expected and what was observed
    pub detail: String,
    /// input skeleton (part of the known-findings signature)
    pub skeleton: String,
    pub stream: String,
    pub idx: u64,
}

#[derive(Default)]
pub struct Recorder {
    /// calls into ppp whose outcome was judged
    pub evaluations: u64,
    /// generated cases (one case usually produces several judged calls)
    pub cases: u64,
    pub nontrivial_cases: u64,
    /// hashes of non-trivial cases that fall into the sampled part of the hash space
    pub distinct: HashSet<u64>,
    /// only hashes whose low `distinct_shift` bits are zero are stored (0 = all)
    pub distinct_shift: u32,
    pub classes: BTreeMap<String, (u64, String)>,
    pub violations: Vec<Violation>,
    pub violation_count: u64,
    pub per_sig: BTreeMap<String, u64>,
    /// current case coordinates (set by the engine before each case)
    pub cur_stream: String,
    pub cur_idx: u64,
    /// replay mode: print every judged call
    pub verbose: bool,
}

pub const MAX_KEPT_VIOLATIONS: usize = 60;
pub const MAX_PER_SIGNATURE: u64 = 3;

impl Recorder {
    pub fn new(distinct_shift: u32) -> Self {
        Recorder { distinct_shift, ..Default::default() }
    }

    #[inline]
    pub fn event(&mut self) {
        self.evaluations += 1;
    }
    #[inline]
    pub fn events(&mut self, n: u64) {
        self.evaluations += n;
    }

    /// Registers one generated case. `hash` identifies its content.
    #[inline]
    pub fn case(&mut self, hash: u64, nontrivial: bool) {
        self.cases += 1;
        if nontrivial {
            self.nontrivial_cases += 1;
            if self.distinct_shift == 0 || hash & ((1u64 << self.distinct_shift) - 1) == 0 {
                self.distinct.insert(hash);
            }
        }
    }

    /// Counts an observation class; `sample` is rendered only the first time the class is seen.
    #[inline]
    pub fn class<F: FnOnce() -> String>(&mut self, name: &str, sample: F) {
        if let Some(e) = self.classes.get_mut(name) {
            e.0 += 1;
        } else {
            self.classes.insert(name.to_string(), (1, sample()));
        }
    }

    pub fn class_n<F: FnOnce() -> String>(&mut self, name: &str, n: u64, sample: F) {
        if n == 0 {
            return;
        }
        if let Some(e) = self.classes.get_mut(name) {
            e.0 += n;
        } else {
            self.classes.insert(name.to_string(), (n, sample()));
        }
    }

    pub fn violation(&mut self, rule: &str, case: String, skeleton: String, detail: String) {
        self.violation_count += 1;
        let sig = format!("{}|{}", rule, skeleton);
        let n = self.per_sig.entry(sig).or_insert(0);
        *n += 1;
        if *n <= MAX_PER_SIGNATURE && self.violations.len() < MAX_KEPT_VIOLATIONS {
            self.violations.push(Violation {
                rule: rule.to_string(),
                case,
                detail,
                skeleton,
                stream: self.cur_stream.clone(),
                idx: self.cur_idx,
            });
        }
    }

    pub fn merge(&mut self, other: Recorder) {
        self.evaluations += other.evaluations;
        self.cases += other.cases;
        self.nontrivial_cases += other.nontrivial_cases;
        self.distinct.extend(other.distinct);
        for (k, (n, s)) in other.classes {
            match self.classes.get_mut(&k) {
                Some(e) => e.0 += n,
                None => {
                    self.classes.insert(k, (n, s));
                }
            }
        }
        self.violation_count += other.violation_count;
        for v in other.violations {
            let sig = format!("{}|{}", v.rule, v.skeleton);
            let n = self.per_sig.entry(sig).or_insert(0);
            *n += 1;
            if *n <= MAX_PER_SIGNATURE && self.violations.len() < MAX_KEPT_VIOLATIONS {
                self.violations.push(v);
            }
        }
    }

    pub fn classes_json(&self) -> Json {
        Json::Obj(self.classes.iter().map(|(k, (n, _))| (k.clone(), Json::u(*n))).collect())
    }

    pub fn samples_json(&self, max: usize) -> Json {
        Json::Arr(
            self.classes
                .iter()
                .take(max)
                .map(|(k, (_, s))| Json::obj().set("class", Json::s(k)).set("case", Json::s(s)))
                .collect(),
        )
    }
}

/// Skeleton of a text-ish input: every maximal run of address/port characters becomes `#`,
/// other printable bytes stay, the rest is escaped.  Two inputs with the same skeleton fail
/// "in the same way" for the purpose of matching a known finding.
pub fn skeleton_text(bytes: &[u8]) -> String {
    let mut out = String::new();
    let mut in_run = false;
    for &b in bytes.iter().take(160) {
        let addrish = b.is_ascii_hexdigit() && !matches!(b, b'A'..=b'F' | b'a'..=b'f') || b == b'.' || b == b':';
        if addrish {
            if !in_run {
                out.push('#');
                in_run = true;
            }
            continue;
        }
        in_run = false;
        match b {
            b'\r' => out.push_str("\\r"),
            b'\n' => out.push_str("\\n"),
            0x20..=0x7e => out.push(b as char),
            _ => out.push_str("\\x.."),
        }
    }
    out
}
