//! Reference recogniser for PROXY protocol v1 lines, written from the statement of property C01
//! (and the HAProxy protocol text).  It deliberately shares no code with `ppp` and does not call
//! `std::net`'s parsers (its address recognisers are differentially tested against them by
//! `selftest`).

#[derive(Clone, Copy, PartialEq, Eq, Debug)]
pub enum Proto {
    Tcp4,
    Tcp6,
    Unknown,
}

impl Proto {
    pub fn keyword(self) -> &'static str {
        match self {
            Proto::Tcp4 => "TCP4",
            Proto::Tcp6 => "TCP6",
            Proto::Unknown => "UNKNOWN",
        }
    }
}

#[derive(Clone, PartialEq, Eq, Debug)]
pub struct Accept {
    /// length of the line including its CRLF
    pub header_len: usize,
    pub proto: Proto,
    /// 4 significant bytes for TCP4, 16 for TCP6, unused for UNKNOWN
    pub src: [u8; 16],
    pub dst: [u8; 16],
    pub sport: u16,
    pub dport: u16,
}

#[derive(Clone, Copy, PartialEq, Eq, Debug)]
pub enum PortBad {
    Empty,
    Signed,
    Padded,
    Range,
    NonNumeric,
}

#[derive(Clone, Copy, PartialEq, Eq, Debug)]
pub enum Reject {
    /// no CR anywhere in the input
    NoCr,
    /// the first CR is the last byte of the input
    CrAtEnd,
    /// the byte after the first CR is not LF
    CrNotLf,
    /// the line through its CRLF is longer than 107 bytes
    TooLong,
    Utf8,
    Keyword,
    Protocol,
    FieldCount,
    SrcAddr,
    DstAddr,
    SrcPort(PortBad),
    DstPort(PortBad),
}

impl Reject {
    pub fn name(self) -> &'static str {
        match self {
            Reject::NoCr => "no-cr",
            Reject::CrAtEnd => "cr-at-end",
            Reject::CrNotLf => "cr-not-lf",
            Reject::TooLong => "too-long",
            Reject::Utf8 => "utf8",
            Reject::Keyword => "keyword",
            Reject::Protocol => "protocol",
            Reject::FieldCount => "field-count",
            Reject::SrcAddr => "src-addr",
            Reject::DstAddr => "dst-addr",
            Reject::SrcPort(PortBad::Empty) => "src-port-empty",
            Reject::SrcPort(PortBad::Signed) => "src-port-signed",
            Reject::SrcPort(PortBad::Padded) => "src-port-padded",
            Reject::SrcPort(PortBad::Range) => "src-port-range",
            Reject::SrcPort(PortBad::NonNumeric) => "src-port-nonnumeric",
            Reject::DstPort(PortBad::Empty) => "dst-port-empty",
            Reject::DstPort(PortBad::Signed) => "dst-port-signed",
            Reject::DstPort(PortBad::Padded) => "dst-port-padded",
            Reject::DstPort(PortBad::Range) => "dst-port-range",
            Reject::DstPort(PortBad::NonNumeric) => "dst-port-nonnumeric",
        }
    }
}

#[derive(Clone, PartialEq, Eq, Debug)]
pub enum V1Ref {
    Accept(Accept),
    Reject(Reject),
}

pub const MAX_LINE: usize = 107;

/// Plain decimal 0..=65535, no sign, no leading zero.
pub fn parse_port(s: &str) -> Result<u16, PortBad> {
    let b = s.as_bytes();
    if b.is_empty() {
        return Err(PortBad::Empty);
    }
    if b[0] == b'+' || b[0] == b'-' {
        return Err(PortBad::Signed);
    }
    if !b.iter().all(|c| c.is_ascii_digit()) {
        return Err(PortBad::NonNumeric);
    }
    if b.len() > 1 && b[0] == b'0' {
        return Err(PortBad::Padded);
    }
    if b.len() > 5 {
        return Err(PortBad::Range);
    }
    let mut v: u32 = 0;
    for &c in b {
        v = v * 10 + (c - b'0') as u32;
    }
    if v > 65535 {
        return Err(PortBad::Range);
    }
    Ok(v as u16)
}

/// Dotted quad: four decimal numbers 0..=255 of 1-3 digits without leading zeros.
pub fn parse_v4(s: &str) -> Option<[u8; 4]> {
    let mut out = [0u8; 4];
    let mut n = 0;
    for part in s.split('.') {
        if n == 4 {
            return None;
        }
        let b = part.as_bytes();
        if b.is_empty() || b.len() > 3 || !b.iter().all(|c| c.is_ascii_digit()) {
            return None;
        }
        if b.len() > 1 && b[0] == b'0' {
            return None;
        }
        let mut v: u32 = 0;
        for &c in b {
            v = v * 10 + (c - b'0') as u32;
        }
        if v > 255 {
            return None;
        }
        out[n] = v as u8;
        n += 1;
    }
    if n == 4 {
        Some(out)
    } else {
        None
    }
}

fn parse_group(s: &str) -> Option<u16> {
    let b = s.as_bytes();
    if b.is_empty() || b.len() > 4 {
        return None;
    }
    let mut v: u32 = 0;
    for &c in b {
        let d = match c {
            b'0'..=b'9' => c - b'0',
            b'a'..=b'f' => c - b'a' + 10,
            b'A'..=b'F' => c - b'A' + 10,
            _ => return None,
        };
        v = v * 16 + d as u32;
    }
    Some(v as u16)
}

/// Parses a colon separated list of groups; the last element may be a dotted quad when
/// `allow_v4_tail`.  Returns the 16-bit groups.
fn parse_groups(s: &str, allow_v4_tail: bool) -> Option<Vec<u16>> {
    let mut out = Vec::new();
    if s.is_empty() {
        return Some(out);
    }
    let parts: Vec<&str> = s.split(':').collect();
    for (i, p) in parts.iter().enumerate() {
        if p.contains('.') {
            if !(allow_v4_tail && i + 1 == parts.len()) {
                return None;
            }
            let q = parse_v4(p)?;
            out.push(u16::from_be_bytes([q[0], q[1]]));
            out.push(u16::from_be_bytes([q[2], q[3]]));
        } else {
            out.push(parse_group(p)?);
        }
    }
    Some(out)
}

/// RFC 4291 section 2.2 text forms 1-3 (no zone identifier, no prefix length, no brackets).
pub fn parse_v6(s: &str) -> Option<[u8; 16]> {
    if !s.is_ascii() || s.is_empty() {
        return None;
    }
    let groups: Vec<u16> = match s.find("::") {
        Some(pos) => {
            let head = &s[..pos];
            let tail = &s[pos + 2..];
            if tail.contains("::") || tail.starts_with(':') {
                return None;
            }
            let h = parse_groups(head, false)?;
            let t = parse_groups(tail, true)?;
            // "::" stands for at least one zero group
            if h.len() + t.len() > 7 {
                return None;
            }
            let mut g = h;
            let zeros = 8 - g.len() - t.len();
            g.extend(std::iter::repeat(0).take(zeros));
            g.extend(t);
            g
        }
        None => {
            let g = parse_groups(s, true)?;
            if g.len() != 8 {
                return None;
            }
            g
        }
    };
    let mut out = [0u8; 16];
    for (i, g) in groups.iter().enumerate() {
        out[2 * i..2 * i + 2].copy_from_slice(&g.to_be_bytes());
    }
    Some(out)
}

/// The C01 grammar.
pub fn v1_ref(input: &[u8]) -> V1Ref {
    let cr = match input.iter().position(|&b| b == b'\r') {
        Some(i) => i,
        None => return V1Ref::Reject(Reject::NoCr),
    };
    if cr + 1 >= input.len() {
        return V1Ref::Reject(Reject::CrAtEnd);
    }
    if input[cr + 1] != b'\n' {
        return V1Ref::Reject(Reject::CrNotLf);
    }
    let header_len = cr + 2;
    if header_len > MAX_LINE {
        return V1Ref::Reject(Reject::TooLong);
    }
    let body = match std::str::from_utf8(&input[..cr]) {
        Ok(b) => b,
        Err(_) => return V1Ref::Reject(Reject::Utf8),
    };
    let fields: Vec<&str> = body.split(' ').collect();
    if fields[0] != "PROXY" {
        return V1Ref::Reject(Reject::Keyword);
    }
    if fields.len() < 2 {
        return V1Ref::Reject(Reject::Protocol);
    }
    let proto = match fields[1] {
        "UNKNOWN" => {
            return V1Ref::Accept(Accept {
                header_len,
                proto: Proto::Unknown,
                src: [0; 16],
                dst: [0; 16],
                sport: 0,
                dport: 0,
            })
        }
        "TCP4" => Proto::Tcp4,
        "TCP6" => Proto::Tcp6,
        _ => return V1Ref::Reject(Reject::Protocol),
    };
    if fields.len() != 6 {
        return V1Ref::Reject(Reject::FieldCount);
    }
    let addr = |s: &str| -> Option<[u8; 16]> {
        match proto {
            Proto::Tcp4 => parse_v4(s).map(|q| {
                let mut a = [0u8; 16];
                a[..4].copy_from_slice(&q);
                a
            }),
            _ => parse_v6(s),
        }
    };
    let src = match addr(fields[2]) {
        Some(a) => a,
        None => return V1Ref::Reject(Reject::SrcAddr),
    };
    let dst = match addr(fields[3]) {
        Some(a) => a,
        None => return V1Ref::Reject(Reject::DstAddr),
    };
    let sport = match parse_port(fields[4]) {
        Ok(p) => p,
        Err(e) => return V1Ref::Reject(Reject::SrcPort(e)),
    };
    let dport = match parse_port(fields[5]) {
        Ok(p) => p,
        Err(e) => return V1Ref::Reject(Reject::DstPort(e)),
    };
    V1Ref::Accept(Accept { header_len, proto, src, dst, sport, dport })
}

/// C18 precondition: the verdict must be final (first CR followed by at least one byte, or
/// 107 bytes supplied without any CR).
pub fn must_be_final(input: &[u8]) -> bool {
    match input.iter().position(|&b| b == b'\r') {
        Some(i) => input.len() > i + 1,
        None => input.len() >= MAX_LINE,
    }
}

/// Number of bytes a byte-at-a-time receiver may have buffered, at most, when the verdict
/// first becomes final for this stream (None: the stream never satisfies the precondition).
pub fn final_by(stream: &[u8]) -> Option<usize> {
    match stream.iter().position(|&b| b == b'\r') {
        Some(i) if i + 1 < stream.len() && i + 2 <= MAX_LINE => Some(i + 2),
        Some(i) if i >= MAX_LINE => Some(MAX_LINE),
        Some(i) if i + 1 < stream.len() => Some(i + 2),
        Some(_) => None,
        None if stream.len() >= MAX_LINE => Some(MAX_LINE),
        None => None,
    }
}

/// Does the examined window (input through the byte after the first CR, or the whole input)
/// end on a character boundary of the string?
pub fn window_on_char_boundary(s: &str) -> bool {
    match s.as_bytes().iter().position(|&b| b == b'\r') {
        Some(i) => {
            let end = (i + 2).min(s.len());
            s.is_char_boundary(end)
        }
        None => true,
    }
}
