//! Runs a monitor over its workload streams on N threads, with a hang watchdog, and writes the
//! result file the python driver turns into evidence / VIOLATION lines.

use crate::json::Json;
use crate::record::Recorder;
use crate::rng::hash_bytes;
use std::sync::atomic::{AtomicBool, AtomicU64, Ordering};
use std::sync::Arc;
use std::time::{Duration, Instant};

/// Set for the Miri tier: generators keep payloads small (the interpreter is ~1000x slower).
pub static SMALL: AtomicBool = AtomicBool::new(false);
pub fn small() -> bool {
    SMALL.load(Ordering::Relaxed)
}

#[derive(Clone, Copy, PartialEq, Eq, Debug)]
pub enum Tier {
    /// tiny workload for Miri (interpreted, ~1000x slower)
    Miri,
    Quick,
    Thorough,
}

impl Tier {
    pub fn name(self) -> &'static str {
        match self {
            Tier::Miri => "miri",
            Tier::Quick => "quick",
            Tier::Thorough => "thorough",
        }
    }
    /// picks a per-tier number
    pub fn n(self, miri: u64, quick: u64, thorough: u64) -> u64 {
        match self {
            Tier::Miri => miri,
            Tier::Quick => quick,
            Tier::Thorough => thorough,
        }
    }
}

#[derive(Clone, Debug)]
pub struct StreamSpec {
    pub name: &'static str,
    /// number of cases; case `idx` ranges over `0..count`
    pub count: u64,
    /// true when the stream enumerates a finite space completely (count is not scaled)
    pub exhaustive: bool,
}

pub fn stream(name: &'static str, count: u64) -> StreamSpec {
    StreamSpec { name, count, exhaustive: false }
}
pub fn exhaustive(name: &'static str, count: u64) -> StreamSpec {
    StreamSpec { name, count, exhaustive: true }
}

pub fn stream_id(name: &str) -> u64 {
    hash_bytes(name.as_bytes())
}

pub trait Monitor: Sync {
    fn id(&self) -> &'static str;
    /// how cases are generated and which ones count as non-trivial
    fn rule(&self) -> &'static str;
    fn streams(&self, tier: Tier) -> Vec<StreamSpec>;
    /// Generates case `idx` of `stream` from `seed`, drives ppp, judges, records.
    fn run_case(&self, stream: &str, idx: u64, seed: u64, rec: &mut Recorder);
    /// Oracle-side classes (names as recorded with `rec.class`) that a run must have observed;
    /// computed from generator + oracle only.
    fn floor(&self, tier: Tier) -> Vec<&'static str>;
    /// Re-executes an encoded case (from a replay file).
    fn replay(&self, case: &str, rec: &mut Recorder);
    /// what the evidence should say is assumed
    fn assumptions(&self) -> Vec<&'static str> {
        vec![]
    }
    /// The very first calls into the crate of this process, made by several threads at the same
    /// instant (`race_start`): lazily initialised shared state must not show. Default: nothing.
    fn cold_start(&self, _rec: &mut Recorder) {}
}

/// Which input the first call of this process goes to: 0 in the parent, 1..=96 in the cold-start
/// children (a process-wide "nothing seen yet" state is primed by whatever comes first).
pub fn cold_rot() -> usize {
    std::env::var("VERIF_COLDSTART_ROT").ok().and_then(|s| s.parse().ok()).unwrap_or(0)
}

/// Runs `f(i)` on `n` threads that are released together by a spin barrier; returns the results.
pub fn race_start<R: Send>(n: usize, f: impl Fn(usize) -> R + Sync) -> Vec<R> {
    let ready = std::sync::atomic::AtomicUsize::new(0);
    let go = AtomicBool::new(false);
    std::thread::scope(|sc| {
        let hs: Vec<_> = (0..n)
            .map(|i| {
                let (ready, go, f) = (&ready, &go, &f);
                sc.spawn(move || {
                    ready.fetch_add(1, Ordering::SeqCst);
                    while !go.load(Ordering::Acquire) {
                        std::hint::spin_loop();
                    }
                    f(i)
                })
            })
            .collect();
        while ready.load(Ordering::SeqCst) < n {
            std::hint::spin_loop();
        }
        go.store(true, Ordering::Release);
        hs.into_iter().filter_map(|h| h.join().ok()).collect()
    })
}

pub struct RunCfg {
    pub tier: Tier,
    pub seed: u64,
    pub threads: usize,
    /// (k, n): only cases with idx % n == k (process-level sharding for Miri / ASan)
    pub shard: (u64, u64),
    /// multiplies the count of non-exhaustive streams
    pub scale: f64,
    pub layer: String,
    pub out: String,
    pub replay_dir: String,
    pub watchdog: bool,
    pub hooks: bool,
    /// write (stream, idx) to this file before every case (slow; used to find a crashing case)
    pub breadcrumb: Option<String>,
    /// only run this stream
    pub only_stream: Option<String>,
}

struct Slot {
    stream: AtomicU64,
    idx: AtomicU64,
    tick: AtomicU64,
    done: AtomicBool,
}

pub fn scaled(spec: &StreamSpec, scale: f64) -> u64 {
    if spec.exhaustive {
        spec.count
    } else {
        ((spec.count as f64) * scale).ceil().max(1.0) as u64
    }
}

/// exit codes of the monitor binary
pub const EXIT_HELD: i32 = 0;
pub const EXIT_VIOLATION: i32 = 1;
pub const EXIT_INCONCLUSIVE: i32 = 2;
pub const EXIT_SUSPECT_HANG: i32 = 3;

static LAYER: std::sync::OnceLock<String> = std::sync::OnceLock::new();

/// Name of the layer this process runs as (release, checked, asan, miri.N, cov, ...).
pub fn layer() -> &'static str {
    LAYER.get().map(|s| s.as_str()).unwrap_or("release")
}

/// Cases that allocate multi-GiB buffers run only in the plain builds (not under the sanitizers,
/// the interpreter or the coverage build), one at a time.
pub fn huge_ok() -> bool {
    let l = layer();
    !small() && (l.starts_with("release") || l.starts_with("checked") || l == "replay")
}

static HUGE_LOCK: std::sync::Mutex<()> = std::sync::Mutex::new(());

/// Calls `f` with a zero-filled buffer of `len` bytes that begins with `front` (only the pages
/// that are written or read are ever touched; the allocation is lazily zeroed virtual memory).
pub fn with_huge<R>(front: &[u8], len: usize, f: impl FnOnce(&[u8]) -> R) -> Option<R> {
    let _g = HUGE_LOCK.lock().unwrap_or_else(|e| e.into_inner());
    let mut v: Vec<u8> = Vec::new();
    if v.try_reserve_exact(len).is_err() {
        return None;
    }
    v = vec![0u8; len];
    let n = front.len().min(len);
    v[..n].copy_from_slice(&front[..n]);
    Some(f(&v))
}

/// Buffer sizes at which 32-bit (and signed 32-bit) size arithmetic goes wrong.
pub const HUGE_SIZES: [usize; 6] = [(1 << 31) + 5, (1 << 32) + 3, (1 << 32) + 21, (1 << 32) + 65_551, (1 << 33) + 7, (1 << 32) - 1];

pub fn run(monitor: &dyn Monitor, cfg: &RunCfg) -> i32 {
    let t0 = Instant::now();
    let _ = LAYER.set(cfg.layer.clone());
    SMALL.store(cfg.tier == Tier::Miri, Ordering::Relaxed);
    let mut streams = monitor.streams(cfg.tier);
    if let Some(only) = &cfg.only_stream {
        streams.retain(|s| s.name == only);
    }
    let total: u64 = streams.iter().map(|s| scaled(s, cfg.scale)).sum();
    // distinct-set sampling: keep the set below ~16M entries
    let mut shift = 0u32;
    while (total >> shift) > 16_000_000 {
        shift += 1;
    }
    let threads = cfg.threads.max(1);
    let slots: Arc<Vec<Slot>> = Arc::new(
        (0..threads)
            .map(|_| Slot {
                stream: AtomicU64::new(0),
                idx: AtomicU64::new(0),
                tick: AtomicU64::new(0),
                done: AtomicBool::new(false),
            })
            .collect(),
    );

    let mut merged = Recorder::new(shift);
    // (under Miri, shard 0 runs a two-thread version of the probe: its data-race detector sees the
    // first calls of two threads into lazily initialised state)
    if cfg.shard.0 == 0 && cfg.only_stream.is_none() {
        // before anything else touches the crate in this process
        let mut rec = Recorder::new(shift);
        rec.cur_stream = "cold-start".to_string();
        monitor.cold_start(&mut rec);
        // one process has one cold start: repeat the probe in 192 fresh child processes (the
        // monitor binary re-executed in `coldstart` mode), eight at a time
        if rec.classes.keys().any(|k| k.starts_with("cold-start")) && std::env::var_os("VERIF_COLDSTART_CHILD").is_none() && (layer().starts_with("release") || layer().starts_with("checked")) {
            if let Ok(exe) = std::env::current_exe() {
                let mut reports: Vec<String> = Vec::new();
                let mut ran = 0u64;
                // 192 children in the quick tier, 480 in the thorough one
                for round in 0..(if cfg.tier == Tier::Thorough { 60 } else { 24 }) {
                    let kids: Vec<_> = (0..8)
                        .filter_map(|k| {
                            // every second child runs the whole-API probe before the monitor's own
                            std::process::Command::new(&exe)
                                .args(["coldstart", monitor.id()])
                                .env("VERIF_COLDSTART_CHILD", if k % 2 == 0 { "1" } else { "2" })
                                .env("VERIF_COLDSTART_ROT", (round * 8 + k + 1).to_string())
                                .stdout(std::process::Stdio::piped())
                                .stderr(std::process::Stdio::null())
                                .spawn()
                                .ok()
                        })
                        .collect();
                    for k in kids {
                        if let Ok(o) = k.wait_with_output() {
                            ran += 1;
                            for l in String::from_utf8_lossy(&o.stdout).lines() {
                                if let Some(d) = l.strip_prefix("COLDSTART-VIOLATION ") {
                                    reports.push(d.to_string());
                                }
                            }
                        }
                    }
                }
                rec.class_n("cold-start|fresh child processes", ran, || "monitor coldstart <ID>".to_string());
                for d in reports.into_iter().take(3) {
                    rec.violation("cold-start-race", "coldstart:child".to_string(), "cold-start".into(), format!("in a fresh child process: {}", d));
                }
            }
        }
        merged.merge(rec);
    }
    let suspect: Option<(usize, u64)> = std::thread::scope(|scope| {
        let mut handles = Vec::new();
        for t in 0..threads {
            let slots = slots.clone();
            let streams = &streams;
            let cfg = &*cfg;
            handles.push(scope.spawn(move || {
                let mut rec = Recorder::new(shift);
                let slot = &slots[t];
                let mut crumb = cfg.breadcrumb.as_ref().map(|p| {
                    std::fs::OpenOptions::new()
                        .create(true)
                        .write(true)
                        .truncate(true)
                        .open(format!("{}.{}", p, t))
                        .expect("breadcrumb file")
                });
                for (si, s) in streams.iter().enumerate() {
                    let count = scaled(s, cfg.scale);
                    rec.cur_stream = s.name.to_string();
                    slot.stream.store(si as u64, Ordering::Relaxed);
                    // process shard (k, n) owns idx = k + n*li; thread t takes li % threads == t
                    let mut li = t as u64;
                    loop {
                        let idx = cfg.shard.0 + cfg.shard.1 * li;
                        if idx >= count {
                            break;
                        }
                        slot.idx.store(idx, Ordering::Relaxed);
                        slot.tick.fetch_add(1, Ordering::Relaxed);
                        if let Some(f) = crumb.as_mut() {
                            use std::io::{Seek, SeekFrom, Write};
                            let _ = f.seek(SeekFrom::Start(0));
                            let _ = f.write_all(format!("{} {:<24}\n", s.name, idx).as_bytes());
                        }
                        rec.cur_idx = idx;
                        // a panic here is a panic of the monitor's own code (calls into ppp are
                        // guarded individually): keep going, the run ends inconclusive unless a
                        // violation was found
                        let r = std::panic::catch_unwind(std::panic::AssertUnwindSafe(|| monitor.run_case(s.name, idx, cfg.seed, &mut rec)));
                        if r.is_err() {
                            rec.class("MONITOR-INTERNAL-PANIC", || format!("{}#{}", s.name, idx));
                        }
                        li += threads as u64;
                    }
                }
                slot.done.store(true, Ordering::Relaxed);
                rec
            }));
        }

        // watchdog: a case in flight for > 20 s is a *suspect* (never a verdict by itself)
        let mut last: Vec<(u64, Instant)> = (0..threads).map(|_| (0, Instant::now())).collect();
        let mut suspect = None;
        loop {
            if handles.iter().all(|h| h.is_finished()) {
                break;
            }
            std::thread::sleep(Duration::from_millis(50));
            if !cfg.watchdog {
                continue;
            }
            for t in 0..threads {
                let slot = &slots[t];
                if slot.done.load(Ordering::Relaxed) {
                    continue;
                }
                let tick = slot.tick.load(Ordering::Relaxed);
                if tick != last[t].0 {
                    last[t] = (tick, Instant::now());
                } else if last[t].1.elapsed() > Duration::from_secs(20) {
                    suspect = Some((
                        slot.stream.load(Ordering::Relaxed) as usize,
                        slot.idx.load(Ordering::Relaxed),
                    ));
                }
            }
            if suspect.is_some() {
                break;
            }
        }
        if let Some((si, idx)) = suspect {
            // cannot join a stuck thread: report and leave the process
            let name = streams[si].name;
            let j = Json::obj()
                .set("property", Json::s(monitor.id()))
                .set("suspect_hang", Json::obj().set("stream", Json::s(name)).set("idx", Json::u(idx)))
                .set("seed", Json::u(cfg.seed))
                .set("tier", Json::s(cfg.tier.name()));
            let _ = std::fs::write(&cfg.out, j.render());
            println!("SUSPECT-HANG property={} stream={} idx={}", monitor.id(), name, idx);
            std::process::exit(EXIT_SUSPECT_HANG);
        }
        for h in handles {
            match h.join() {
                Ok(rec) => merged.merge(rec),
                Err(_) => {
                    println!("INCONCLUSIVE property={} reason=worker-thread-panicked-outside-a-monitored-call", monitor.id());
                    std::process::exit(EXIT_INCONCLUSIVE);
                }
            }
        }
        None
    });
    let _ = suspect;

    finish(monitor, cfg, &streams, merged, t0)
}

pub fn finish(monitor: &dyn Monitor, cfg: &RunCfg, streams: &[StreamSpec], merged: Recorder, t0: Instant) -> i32 {
    // oracle-side coverage floor (only meaningful for a full, unsharded run)
    let full = cfg.shard.1 == 1 && cfg.only_stream.is_none();
    let mut missing = Vec::new();
    if full {
        for f in monitor.floor(cfg.tier) {
            if !merged.classes.contains_key(f) {
                missing.push(f.to_string());
            }
        }
    }

    // replay files
    let mut vjson = Vec::new();
    if !merged.violations.is_empty() {
        let _ = std::fs::create_dir_all(&cfg.replay_dir);
    }
    for (i, v) in merged.violations.iter().enumerate() {
        let path = format!("{}/{}-{}-{}-{:03}.json", cfg.replay_dir, monitor.id(), cfg.layer, cfg.seed, i);
        let j = Json::obj()
            .set("property", Json::s(monitor.id()))
            .set("rule", Json::s(&v.rule))
            .set("skeleton", Json::s(&v.skeleton))
            .set("detail", Json::s(&v.detail))
            .set("case", Json::s(&v.case))
            .set("stream", Json::s(&v.stream))
            .set("idx", Json::u(v.idx))
            .set("seed", Json::u(cfg.seed))
            .set("tier", Json::s(cfg.tier.name()))
            .set("threads", Json::u(cfg.threads as u64))
            .set("layer", Json::s(&cfg.layer));
        let _ = std::fs::write(&path, j.render());
        vjson.push(
            Json::obj()
                .set("rule", Json::s(&v.rule))
                .set("skeleton", Json::s(&v.skeleton))
                .set("detail", Json::s(&v.detail))
                .set("replay", Json::s(&path)),
        );
    }

    let distinct = merged.distinct.len() as u64;
    let res = Json::obj()
        .set("property", Json::s(monitor.id()))
        .set("layer", Json::s(&cfg.layer))
        .set("tier", Json::s(cfg.tier.name()))
        .set("seed", Json::u(cfg.seed))
        .set("threads", Json::u(cfg.threads as u64))
        .set("shard", Json::s(&format!("{}/{}", cfg.shard.0, cfg.shard.1)))
        .set("hooks", Json::Bool(cfg.hooks))
        .set("evaluations", Json::u(merged.evaluations))
        .set("cases", Json::u(merged.cases))
        .set("nontrivial_cases", Json::u(merged.nontrivial_cases))
        .set("distinct_nontrivial", Json::u(distinct))
        .set("distinct_shift", Json::u(merged.distinct_shift as u64))
        .set("rule", Json::s(monitor.rule()))
        .set(
            "streams",
            Json::Arr(
                streams
                    .iter()
                    .map(|s| {
                        Json::obj()
                            .set("name", Json::s(s.name))
                            .set("cases", Json::u(scaled(s, cfg.scale)))
                            .set("exhaustive", Json::Bool(s.exhaustive))
                    })
                    .collect(),
            ),
        )
        .set("classes", merged.classes_json())
        .set("samples", merged.samples_json(400))
        .set("floor_missing", Json::Arr(missing.iter().map(|m| Json::s(m)).collect()))
        .set("violation_count", Json::u(merged.violation_count))
        .set("violations", Json::Arr(vjson))
        .set("assumptions", Json::Arr(monitor.assumptions().iter().map(|a| Json::s(a)).collect()))
        .set("wall_s", Json::Num(t0.elapsed().as_secs_f64()));
    if let Err(e) = std::fs::write(&cfg.out, res.render()) {
        println!("INCONCLUSIVE property={} reason=cannot-write-result:{}", monitor.id(), e);
        return EXIT_INCONCLUSIVE;
    }
    println!(
        "monitor {} layer={} tier={} seed={} cases={} events={} distinct_nontrivial={}{} classes={} violations={} wall={:.1}s",
        monitor.id(),
        cfg.layer,
        cfg.tier.name(),
        cfg.seed,
        merged.cases,
        merged.evaluations,
        distinct,
        if merged.distinct_shift > 0 { format!(" (1/{} of hash space)", 1u64 << merged.distinct_shift) } else { String::new() },
        merged.classes.len(),
        merged.violation_count,
        t0.elapsed().as_secs_f64()
    );
    if merged.violation_count > 0 {
        EXIT_VIOLATION
    } else if let Some((n, first)) = merged.classes.get("MONITOR-INTERNAL-PANIC") {
        println!("INCONCLUSIVE property={} reason=monitor-code-panicked-on-{}-cases(first:{})", monitor.id(), n, first);
        EXIT_INCONCLUSIVE
    } else if !missing.is_empty() {
        println!("INCONCLUSIVE property={} reason=coverage-floor-not-met:{}", monitor.id(), missing.join(","));
        EXIT_INCONCLUSIVE
    } else if merged.evaluations == 0 {
        if full {
            println!("INCONCLUSIVE property={} reason=no-events-observed", monitor.id());
            EXIT_INCONCLUSIVE
        } else {
            EXIT_HELD
        }
    } else {
        EXIT_HELD
    }
}


// ---------------------------------------------------------------------------------------------
// input placement: the same bytes at every alignment

thread_local! {
    static ARENA: std::cell::RefCell<Vec<u8>> = const { std::cell::RefCell::new(Vec::new()) };
}

/// Calls `f` with a copy of `x` that starts at address = `salt % 16` (mod 16): heap buffers are
/// always 16-aligned, real network buffers are sliced at arbitrary offsets, and code with
/// word-wise fast paths can depend on the difference. The bytes before and after the copy are
/// 0xEE filler inside the same allocation.
pub fn placed<R>(x: &[u8], salt: u64, f: impl FnOnce(&[u8]) -> R) -> R {
    let mut arena = ARENA.with(|a| std::mem::take(&mut *a.borrow_mut()));
    arena.clear();
    arena.reserve(x.len() + 48);
    let base = arena.as_ptr() as usize;
    // consecutive cases of one thread differ by the thread count (usually 16): fold higher bits in
    let want = ((salt ^ (salt >> 4) ^ (salt >> 9)) % 16) as usize;
    let off = (want + 16 - base % 16) % 16;
    arena.resize(off, 0xEE);
    arena.extend_from_slice(x);
    arena.extend_from_slice(&[0xEE; 16]);
    let r = f(&arena[off..off + x.len()]);
    ARENA.with(|a| *a.borrow_mut() = arena);
    r
}

/// Like `placed`, for a whole history: every element is copied to the *same* address in turn
/// (a receive buffer that is refilled), `f` is called once per element.
pub fn placed_seq(items: &[Vec<u8>], salt: u64, mut f: impl FnMut(&[u8])) {
    let max = items.iter().map(|v| v.len()).max().unwrap_or(0);
    let mut arena = ARENA.with(|a| std::mem::take(&mut *a.borrow_mut()));
    arena.clear();
    arena.reserve(max + 48);
    let base = arena.as_ptr() as usize;
    let want = ((salt ^ (salt >> 4) ^ (salt >> 9)) % 16) as usize;
    let off = (want + 16 - base % 16) % 16;
    for x in items {
        arena.clear();
        arena.resize(off, 0xEE);
        arena.extend_from_slice(x);
        arena.extend_from_slice(&[0xEE; 16]);
        debug_assert_eq!(arena.as_ptr() as usize, base);
        f(&arena[off..off + x.len()]);
    }
    ARENA.with(|a| *a.borrow_mut() = arena);
}

/// Which cases get a history around them (`sib`): one in `one_in`, chosen by the case index.
pub fn with_history(idx: u64, one_in: u64) -> bool {
    crate::rng::mix(idx ^ 0x4157) % one_in == 0
}

/// For monitors whose per-case cost is high: the exhaustive single-field sweeps are taken as a
/// random sample of `1/div` of their size (they stay exhaustive in the monitors that are cheap
/// per case). The sampled stream has the name `<name>-s`, which the case generators understand.
pub fn sample_sweeps(streams: Vec<StreamSpec>, tier: Tier, div_v1: u64, div_v2: u64) -> Vec<StreamSpec> {
    streams
        .into_iter()
        .map(|s| match s.name {
            "v1-sweep" if tier != Tier::Miri => stream("v1-sweep-s", s.count / div_v1),
            "v2-sweep" if tier != Tier::Miri => stream("v2-sweep-s", s.count / div_v2),
            _ => s,
        })
        .collect()
}
