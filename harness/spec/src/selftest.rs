//! Differential self-test of the oracle's address / port recognisers against the standard
//! library.  A disagreement here is an ORACLE problem (or a toolchain change) and makes the
//! checks inconclusive; it is never reported as a violation of a property.

use crate::rng::Rng;
use crate::v1::{parse_port, parse_v4, parse_v6};
use crate::v1gen::*;
use std::net::{Ipv4Addr, Ipv6Addr};
use std::str::FromStr;

fn check(s: &str, diffs: &mut Vec<String>) {
    let a4 = parse_v4(s);
    let b4 = Ipv4Addr::from_str(s).ok().map(|a| a.octets());
    if a4 != b4 {
        diffs.push(format!("v4 {:?}: oracle {:?} std {:?}", s, a4, b4));
    }
    let a6 = parse_v6(s);
    let b6 = Ipv6Addr::from_str(s).ok().map(|a| a.octets());
    if a6 != b6 {
        diffs.push(format!("v6 {:?}: oracle {:?} std {:?}", s, a6, b6));
    }
    // ports: the oracle is u16::from_str minus a leading '+' and minus leading zeros
    let ap = parse_port(s).ok();
    let bp = if s.starts_with('+') || (s.len() > 1 && s.starts_with('0')) { None } else { u16::from_str(s).ok() };
    if ap != bp {
        diffs.push(format!("port {:?}: oracle {:?} std-derived {:?}", s, ap, bp));
    }
}

/// Returns (strings compared, disagreements).
pub fn run(seed: u64, n_random: u64) -> (u64, Vec<String>) {
    let mut diffs = Vec::new();
    let mut n = 0u64;
    // 1. token-level enumeration: all strings of <= 6 tokens over a small hostile alphabet
    let toks = ["::", ":", ".", "0", "1", "ffff", "255", "256", "01", "12345", "g", "F"];
    let max = 6u32;
    let total: u64 = (0..=max).map(|k| (toks.len() as u64).pow(k)).sum();
    for mut idx in 0..total {
        let mut len = 0u32;
        while idx >= (toks.len() as u64).pow(len) {
            idx -= (toks.len() as u64).pow(len);
            len += 1;
        }
        let mut s = String::new();
        for _ in 0..len {
            s.push_str(toks[(idx % toks.len() as u64) as usize]);
            idx /= toks.len() as u64;
        }
        check(&s, &mut diffs);
        n += 1;
        if diffs.len() > 20 {
            return (n, diffs);
        }
    }
    // 2. every bad spelling of the pools, every generated valid spelling, and mutations
    for s in BAD_V4.iter().chain(BAD_V6.iter()).chain(BAD_PORT.iter()) {
        check(s, &mut diffs);
        n += 1;
    }
    let mut rng = Rng::new(seed ^ 0x5E1F);
    for _ in 0..n_random {
        let s = match rng.below(4) {
            0 => fmt_v4(rand_v4(&mut rng)),
            1 => {
                let st = *rng.pick(&V6_STYLES);
                let g = rand_v6(&mut rng);
                let s = fmt_v6(g, st, &mut rng);
                // a generated spelling must decode to the value it was generated from
                if parse_v6(&s) != Some(bytes_of(g)) {
                    diffs.push(format!("generator/oracle: {:?} in style {:?} gives {:?}", g, st, s));
                }
                s
            }
            2 => rand_port(&mut rng).to_string(),
            _ => {
                // 6..9 groups with empty / over-long / dotted elements
                let k = rng.range(1, 9);
                let mut parts = Vec::new();
                for _ in 0..k {
                    parts.push(*rng.pick(&["0", "1", "ffff", "", "12345", "1.2.3.4", "00a", "FfFf", "0000", "g", "256.1.1.1"]));
                }
                parts.join(":")
            }
        };
        check(&s, &mut diffs);
        n += 1;
        let mut b = s.clone().into_bytes();
        mutate(&mut rng, &mut b);
        if let Ok(m) = String::from_utf8(b) {
            check(&m, &mut diffs);
            n += 1;
        }
        if diffs.len() > 20 {
            break;
        }
    }
    (n, diffs)
}
