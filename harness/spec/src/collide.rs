//! Fingerprint-collision workload.
//!
//! Every parsing entry point is specified as a pure function of its input. A realistic way to
//! break that is a memo of the last result keyed by a *fingerprint* of the input - a 32-bit (or
//! shorter) cut of a common hash function - instead of the input itself. Two unrelated inputs with
//! equal fingerprints never meet by chance in a random workload (2^-32 per consecutive pair), so
//! this module manufactures them: for each of a list of widespread hash functions and each way of
//! cutting 32 bits out of it, a birthday search over a few hundred thousand same-length inputs
//! yields pairs (A, B), A != B, with fingerprint(A) == fingerprint(B). The monitors run A and then
//! B on one thread and judge both with their ordinary oracle.
//!
//! The populations and the functions are fixed, so the pairs are the same in every run.
//! A memo keyed by a full 64-bit (or wider) hash, or by a randomly keyed one, stays out of reach.

use crate::rng::mix;
use std::collections::HashMap;
use std::hash::Hasher;
use std::sync::OnceLock;

pub struct Pair {
    pub a: Vec<u8>,
    pub b: Vec<u8>,
    /// which function / cut / window the two agree on
    pub tag: String,
}

// ---------------------------------------------------------------------------------------------
// hash functions (all unkeyed or keyed with their conventional default)

fn sip_write(w: &[u8]) -> u64 {
    #[allow(deprecated)]
    let mut h = std::hash::SipHasher::new();
    h.write(w);
    h.finish()
}
fn sip13_write(w: &[u8]) -> u64 {
    let mut h = std::collections::hash_map::DefaultHasher::new();
    h.write(w);
    h.finish()
}
fn sip13_hash_slice(w: &[u8]) -> u64 {
    use std::hash::Hash;
    let mut h = std::collections::hash_map::DefaultHasher::new();
    w.hash(&mut h);
    h.finish()
}
fn sip13_hash_str(w: &[u8]) -> u64 {
    // `str::hash` = the bytes followed by 0xFF
    let mut h = std::collections::hash_map::DefaultHasher::new();
    h.write(w);
    h.write_u8(0xFF);
    h.finish()
}
fn fnv1a64(w: &[u8]) -> u64 {
    let mut h: u64 = 0xcbf2_9ce4_8422_2325;
    for &b in w {
        h ^= b as u64;
        h = h.wrapping_mul(0x0000_0100_0000_01B3);
    }
    h
}
fn fnv1_64(w: &[u8]) -> u64 {
    let mut h: u64 = 0xcbf2_9ce4_8422_2325;
    for &b in w {
        h = h.wrapping_mul(0x0000_0100_0000_01B3);
        h ^= b as u64;
    }
    h
}
fn fnv1a32(w: &[u8]) -> u64 {
    let mut h: u32 = 0x811c_9dc5;
    for &b in w {
        h ^= b as u32;
        h = h.wrapping_mul(0x0100_0193);
    }
    h as u64
}
fn crc_generic(w: &[u8], poly_reflected: u32) -> u64 {
    let mut c: u32 = !0;
    for &b in w {
        c ^= b as u32;
        for _ in 0..8 {
            c = if c & 1 != 0 { (c >> 1) ^ poly_reflected } else { c >> 1 };
        }
    }
    (!c) as u64
}
fn crc32(w: &[u8]) -> u64 {
    crc_generic(w, 0xEDB8_8320)
}
fn crc32c(w: &[u8]) -> u64 {
    crc_generic(w, 0x82F6_3B78)
}
fn adler32(w: &[u8]) -> u64 {
    let (mut a, mut b) = (1u32, 0u32);
    for &x in w {
        a = (a + x as u32) % 65521;
        b = (b + a) % 65521;
    }
    ((b << 16) | a) as u64
}
fn djb2(w: &[u8]) -> u64 {
    let mut h: u64 = 5381;
    for &b in w {
        h = h.wrapping_mul(33).wrapping_add(b as u64);
    }
    h
}
fn djb2x(w: &[u8]) -> u64 {
    let mut h: u64 = 5381;
    for &b in w {
        h = h.wrapping_mul(33) ^ b as u64;
    }
    h
}
fn java31(w: &[u8]) -> u64 {
    let mut h: u64 = 0;
    for &b in w {
        h = h.wrapping_mul(31).wrapping_add(b as u64);
    }
    h
}
fn sdbm(w: &[u8]) -> u64 {
    let mut h: u64 = 0;
    for &b in w {
        h = (b as u64).wrapping_add(h << 6).wrapping_add(h << 16).wrapping_sub(h);
    }
    h
}
fn murmur3_32(w: &[u8]) -> u64 {
    let (c1, c2) = (0xcc9e_2d51u32, 0x1b87_3593u32);
    let mut h: u32 = 0;
    let mut chunks = w.chunks_exact(4);
    for c in &mut chunks {
        let mut k = u32::from_le_bytes([c[0], c[1], c[2], c[3]]);
        k = k.wrapping_mul(c1).rotate_left(15).wrapping_mul(c2);
        h = (h ^ k).rotate_left(13).wrapping_mul(5).wrapping_add(0xe654_6b64);
    }
    let rest = chunks.remainder();
    let mut k: u32 = 0;
    for (i, &b) in rest.iter().enumerate() {
        k |= (b as u32) << (8 * i);
    }
    if !rest.is_empty() {
        h ^= k.wrapping_mul(c1).rotate_left(15).wrapping_mul(c2);
    }
    h ^= w.len() as u32;
    h ^= h >> 16;
    h = h.wrapping_mul(0x85eb_ca6b);
    h ^= h >> 13;
    h = h.wrapping_mul(0xc2b2_ae35);
    (h ^ (h >> 16)) as u64
}
fn xxh32(w: &[u8]) -> u64 {
    const P1: u32 = 0x9E37_79B1;
    const P2: u32 = 0x85EB_CA77;
    const P3: u32 = 0xC2B2_AE3D;
    const P4: u32 = 0x27D4_EB2F;
    const P5: u32 = 0x1656_67B1;
    let rd = |p: &[u8]| u32::from_le_bytes([p[0], p[1], p[2], p[3]]);
    let round = |acc: u32, x: u32| acc.wrapping_add(x.wrapping_mul(P2)).rotate_left(13).wrapping_mul(P1);
    let mut p = w;
    let mut h: u32;
    if p.len() >= 16 {
        let (mut v1, mut v2, mut v3, mut v4) = (P1.wrapping_add(P2), P2, 0u32, 0u32.wrapping_sub(P1));
        while p.len() >= 16 {
            v1 = round(v1, rd(&p[0..]));
            v2 = round(v2, rd(&p[4..]));
            v3 = round(v3, rd(&p[8..]));
            v4 = round(v4, rd(&p[12..]));
            p = &p[16..];
        }
        h = v1.rotate_left(1).wrapping_add(v2.rotate_left(7)).wrapping_add(v3.rotate_left(12)).wrapping_add(v4.rotate_left(18));
    } else {
        h = P5;
    }
    h = h.wrapping_add(w.len() as u32);
    while p.len() >= 4 {
        h = h.wrapping_add(rd(p).wrapping_mul(P3)).rotate_left(17).wrapping_mul(P4);
        p = &p[4..];
    }
    for &b in p {
        h = h.wrapping_add((b as u32).wrapping_mul(P5)).rotate_left(11).wrapping_mul(P1);
    }
    h ^= h >> 15;
    h = h.wrapping_mul(P2);
    h ^= h >> 13;
    h = h.wrapping_mul(P3);
    (h ^ (h >> 16)) as u64
}
/// FxHash as in rustc-hash 1.x (`write` of a byte slice: 8-, 4-, 2-, 1-byte words).
fn fxhash64(w: &[u8]) -> u64 {
    const K: u64 = 0x517c_c1b7_2722_0a95;
    let add = |h: u64, x: u64| (h.rotate_left(5) ^ x).wrapping_mul(K);
    let mut h = 0u64;
    let mut p = w;
    while p.len() >= 8 {
        h = add(h, u64::from_le_bytes([p[0], p[1], p[2], p[3], p[4], p[5], p[6], p[7]]));
        p = &p[8..];
    }
    if p.len() >= 4 {
        h = add(h, u32::from_le_bytes([p[0], p[1], p[2], p[3]]) as u64);
        p = &p[4..];
    }
    if p.len() >= 2 {
        h = add(h, u16::from_le_bytes([p[0], p[1]]) as u64);
        p = &p[2..];
    }
    if let Some(&b) = p.first() {
        h = add(h, b as u64);
    }
    h
}
/// Byte-at-a-time FxHash (what deriving `Hash` on a `[u8; N]` or hashing bytes one by one gives).
fn fxhash64_bytes(w: &[u8]) -> u64 {
    const K: u64 = 0x517c_c1b7_2722_0a95;
    let mut h = 0u64;
    for &b in w {
        h = (h.rotate_left(5) ^ b as u64).wrapping_mul(K);
    }
    h
}
/// Sum of the little-endian 32-bit words (a checksum-style fingerprint).
fn wordsum32(w: &[u8]) -> u64 {
    let mut s: u32 = 0;
    for c in w.chunks(4) {
        let mut k = [0u8; 4];
        k[..c.len()].copy_from_slice(c);
        s = s.wrapping_add(u32::from_le_bytes(k));
    }
    s as u64
}
/// Polynomial rolling hash modulo 2^61 - 1 cut to 32 bits, base 257.
fn poly257(w: &[u8]) -> u64 {
    const M: u128 = (1u128 << 61) - 1;
    let mut h: u128 = 0;
    for &b in w {
        h = (h * 257 + b as u128 + 1) % M;
    }
    h as u64
}

type HashFn = fn(&[u8]) -> u64;

/// (name, function, is the result wider than 32 bits)
const FUNCTIONS: [(&str, HashFn, bool); 21] = [
    ("siphash-1-3(write)", sip13_write, true),
    ("siphash-1-3(<[u8] as Hash>)", sip13_hash_slice, true),
    ("siphash-1-3(<str as Hash>)", sip13_hash_str, true),
    ("siphash-2-4(write)", sip_write, true),
    ("fnv-1a-64", fnv1a64, true),
    ("fnv-1-64", fnv1_64, true),
    ("fnv-1a-32", fnv1a32, false),
    ("crc-32", crc32, false),
    ("crc-32c", crc32c, false),
    ("adler-32", adler32, false),
    ("djb2", djb2, true),
    ("djb2-xor", djb2x, true),
    ("31*h+c", java31, true),
    ("sdbm", sdbm, true),
    ("murmur3-32", murmur3_32, false),
    ("xxhash32", xxh32, false),
    ("fxhash64(words)", fxhash64, true),
    ("fxhash64(bytes)", fxhash64_bytes, true),
    ("sum of 32-bit words", wordsum32, false),
    ("polynomial mod 2^61-1", poly257, true),
    ("splitmix(fnv-1a-64)", |w| mix(fnv1a64(w)), true),
];

// ---------------------------------------------------------------------------------------------
// populations

/// Length of every line of the v1 population.
pub const V1_LEN: usize = 56;
pub const V1_FRONT: &[u8] = b"PROXY TCP4 1";

/// `PROXY TCP4 1aa.1bb.1cc.1dd 1ee.1ff.1gg.1hh ppppp qqqqq\r\n`; odd `i`: the source port is
/// 70000..99999 (not a port), so half of the population is ill-formed.
fn v1_line(i: u64) -> Vec<u8> {
    let r = mix(i ^ 0xC011_1DE);
    let s = mix(r);
    let d = |k: u32| 100 + (r >> (7 * k)) % 100;
    let sp = if i % 2 == 1 { 70_000 + s % 30_000 } else { 10_000 + s % 50_000 };
    let dp = 10_000 + (s >> 20) % 50_000;
    let v = format!("PROXY TCP4 {}.{}.{}.{} {}.{}.{}.{} {} {}\r\n", d(0), d(1), d(2), d(3), d(4), d(5), d(6), d(7), sp, dp).into_bytes();
    debug_assert_eq!(v.len(), V1_LEN);
    v
}

pub const V2_LEN: usize = 28;
const V2_SIG: [u8; 12] = [0x0D, 0x0A, 0x0D, 0x0A, 0x00, 0x0D, 0x0A, 0x51, 0x55, 0x49, 0x54, 0x0A];
pub const V2_CTL: [u8; 4] = [0x21, 0x11, 0x00, 0x0C];

/// A 28-byte PROXY / IPv4 / STREAM header with 12 arbitrary address bytes.
fn v2_header(i: u64) -> Vec<u8> {
    let mut v = Vec::with_capacity(V2_LEN);
    v.extend_from_slice(&V2_SIG);
    v.extend_from_slice(&V2_CTL);
    v.extend_from_slice(&mix(i ^ 0xB17).to_le_bytes());
    v.extend_from_slice(&mix(i ^ 0x7E57_0000).to_le_bytes()[..4]);
    v
}

const POPULATION: u64 = 300_000;
const KEEP_PER_SEARCH: usize = 4;

/// Windows of an input that a fingerprint may be taken of: (name, start, bytes cut from the end).
fn search(pop: &[Vec<u8>], windows: &[(&'static str, usize, usize)]) -> Vec<Pair> {
    let mut jobs: Vec<(usize, usize, u32)> = Vec::new();
    for wi in 0..windows.len() {
        for (fi, f) in FUNCTIONS.iter().enumerate() {
            jobs.push((wi, fi, 0));
            if f.2 {
                jobs.push((wi, fi, 32));
                jobs.push((wi, fi, 99)); // fold: high ^ low
            }
        }
    }
    let next = std::sync::atomic::AtomicUsize::new(0);
    let found: std::sync::Mutex<Vec<(usize, Pair)>> = std::sync::Mutex::new(Vec::new());
    std::thread::scope(|sc| {
        for _ in 0..8 {
            sc.spawn(|| loop {
                let j = next.fetch_add(1, std::sync::atomic::Ordering::Relaxed);
                if j >= jobs.len() {
                    break;
                }
                let (wi, fi, cut) = jobs[j];
                let (wname, start, tail) = windows[wi];
                let (fname, f, _) = FUNCTIONS[fi];
                let mut keys: Vec<(u32, u32)> = pop
                    .iter()
                    .enumerate()
                    .map(|(i, x)| {
                        let h = f(&x[start..x.len() - tail]);
                        let k = match cut {
                            0 => h as u32,
                            32 => (h >> 32) as u32,
                            _ => (h ^ (h >> 32)) as u32,
                        };
                        (k, i as u32)
                    })
                    .collect();
                keys.sort_unstable();
                let mut n = 0;
                for w in keys.windows(2) {
                    if w[0].0 == w[1].0 && pop[w[0].1 as usize] != pop[w[1].1 as usize] {
                        let cutname = match cut {
                            0 => "low 32 bits",
                            32 => "high 32 bits",
                            _ => "high ^ low 32 bits",
                        };
                        found.lock().unwrap().push((j, Pair { a: pop[w[0].1 as usize].clone(), b: pop[w[1].1 as usize].clone(), tag: format!("{} of {} over {}", cutname, fname, wname) }));
                        n += 1;
                        if n == KEEP_PER_SEARCH {
                            break;
                        }
                    }
                }
            });
        }
    });
    let mut v = found.into_inner().unwrap();
    v.sort_by_key(|(j, p)| (*j, p.a.clone()));
    v.into_iter().map(|(_, p)| p).collect()
}

static V1: OnceLock<(Vec<Pair>, HashMap<Vec<u8>, Vec<usize>>)> = OnceLock::new();
static V2: OnceLock<(Vec<Pair>, HashMap<Vec<u8>, Vec<usize>>)> = OnceLock::new();

fn index(pairs: Vec<Pair>) -> (Vec<Pair>, HashMap<Vec<u8>, Vec<usize>>) {
    let mut m: HashMap<Vec<u8>, Vec<usize>> = HashMap::new();
    for (i, p) in pairs.iter().enumerate() {
        m.entry(p.a.clone()).or_default().push(i);
        m.entry(p.b.clone()).or_default().push(i);
    }
    (pairs, m)
}

fn v1_table() -> &'static (Vec<Pair>, HashMap<Vec<u8>, Vec<usize>>) {
    V1.get_or_init(|| {
        let pop: Vec<Vec<u8>> = (0..POPULATION).map(v1_line).collect();
        index(search(&pop, &[("the line with its CRLF", 0, 0), ("the line without its CRLF", 0, 2), ("the text after `PROXY `", 6, 2)]))
    })
}

fn v2_table() -> &'static (Vec<Pair>, HashMap<Vec<u8>, Vec<usize>>) {
    V2.get_or_init(|| {
        let pop: Vec<Vec<u8>> = (0..POPULATION).map(v2_header).collect();
        index(search(&pop, &[("the whole header", 0, 0), ("the address block", 16, 0), ("the header after its signature", 12, 0)]))
    })
}

pub fn v1_pairs() -> &'static [Pair] {
    &v1_table().0
}
pub fn v2_pairs() -> &'static [Pair] {
    &v2_table().0
}

/// Case `idx` of the `v1-collide` / `v2-collide` streams: the second element of a pair (each pair
/// is visited in both orders).
pub fn v1_case(idx: u64) -> Vec<u8> {
    let p = v1_pairs();
    if p.is_empty() {
        return Vec::new();
    }
    let q = &p[(idx / 2) as usize % p.len()];
    if idx % 2 == 0 { q.b.clone() } else { q.a.clone() }
}
pub fn v2_case(idx: u64) -> Vec<u8> {
    let p = v2_pairs();
    if p.is_empty() {
        return Vec::new();
    }
    let q = &p[(idx / 2) as usize % p.len()];
    if idx % 2 == 0 { q.b.clone() } else { q.a.clone() }
}

/// The inputs whose fingerprint (under some function) equals that of `x`, if `x` belongs to the
/// collision workload; with the tag of the first.
pub fn v1_partners(x: &[u8]) -> Option<(Vec<&'static [u8]>, &'static str)> {
    if x.len() != V1_LEN || !x.starts_with(V1_FRONT) || crate::engine::small() {
        return None;
    }
    partners(v1_table(), x)
}
pub fn v2_partners(x: &[u8]) -> Option<(Vec<&'static [u8]>, &'static str)> {
    if x.len() != V2_LEN || x[12..16] != V2_CTL || crate::engine::small() {
        return None;
    }
    partners(v2_table(), x)
}

fn partners(t: &'static (Vec<Pair>, HashMap<Vec<u8>, Vec<usize>>), x: &[u8]) -> Option<(Vec<&'static [u8]>, &'static str)> {
    let ids = t.1.get(x)?;
    let mut v: Vec<&'static [u8]> = Vec::new();
    for &i in ids {
        let p = &t.0[i];
        v.push(if p.a == x { &p.b[..] } else { &p.a[..] });
    }
    Some((v, t.0[ids[0]].tag.as_str()))
}

#[cfg(test)]
mod tests {
    use super::*;

    #[test]
    fn known_values() {
        assert_eq!(crc32(b"123456789"), 0xCBF4_3926);
        assert_eq!(crc32c(b"123456789"), 0xE306_9283);
        assert_eq!(adler32(b"Wikipedia"), 0x11E6_0398);
        assert_eq!(fnv1a32(b"a"), 0xE40C_292C);
        assert_eq!(fnv1a64(b"a"), 0xAF63_DC4C_8601_EC8C);
        assert_eq!(murmur3_32(b"test"), 0xBA6B_D213);
        assert_eq!(xxh32(b"abc"), 0x32D1_53FF);
        assert_eq!(xxh32(b"Nobody inspects the spammish repetition"), 0xE229_3B2F);
        assert_eq!(java31(b"hello") as u32, 99162322);
    }

    #[test]
    fn pairs_collide() {
        let p = v1_pairs();
        assert!(p.len() > 100, "{}", p.len());
        for q in p {
            assert_ne!(q.a, q.b);
            assert_eq!(q.a.len(), V1_LEN);
            assert_eq!(q.b.len(), V1_LEN);
        }
        assert!(v2_pairs().len() > 100);
        // the first search is low 32 bits of SipHash-1-3 over the whole line
        let q = &p[0];
        assert_eq!(sip13_write(&q.a) as u32, sip13_write(&q.b) as u32, "{}", q.tag);
    }
}
