#!/usr/bin/env python3
"""Confirms and evaluates seeded changes (mutants) of misalcedo/ppp.

  seeded.py confirm <mutant-dir>            in a scratch worktree under /tmp (removed afterwards):
                                            patch applies, `cargo test` (73 tests) passes with it,
                                            demo.rs fails with it and passes without it
  seeded.py detect <mutant-dir> [IDs...]    apply patch.diff to /repo, run the quick checks (all 20 by
                                            default), undo the patch straight afterwards; prints which fired
  seeded.py matrix                          detect for every /verif/seeded/*/ and write seeded/MATRIX.json

A mutant dir holds patch.diff, demo.rs and (after confirm/detect) meta.json.
"""
import json
import os
import re
import subprocess
import sys
import time

VERIF = os.path.dirname(os.path.dirname(os.path.abspath(__file__)))
IDS = ["C%02d" % i for i in range(1, 21)]
ENV = dict(os.environ, CARGO_NET_OFFLINE="true")


def sh(cmd, cwd=None, env=None, timeout=3600):
    p = subprocess.run(cmd, cwd=cwd, env=env or ENV, stdout=subprocess.PIPE, stderr=subprocess.STDOUT, text=True, timeout=timeout)
    return p.returncode, p.stdout


def confirm(mdir):
    """demo.rs is tried in the debug profile first; a change that only shows without debug
    assertions is confirmed with `--release` (recorded as demo_profile)."""
    mdir = os.path.abspath(mdir)
    wt = "/tmp/seeded-confirm-%s-%d" % (os.path.basename(mdir.rstrip("/")), os.getpid())
    res = dict(applies=False, tests_pass_with_patch=False, demo_fails_with_patch=False, demo_passes_without_patch=False)
    rc, out = sh(["git", "-C", "/repo", "worktree", "add", "-q", "--detach", wt, "HEAD"])
    if rc != 0:
        print(out)
        return res
    env = dict(ENV, CARGO_TARGET_DIR=os.path.join(wt, "target"))

    def demo_fails(out, rc):
        return rc != 0 and "could not compile" not in out and ("test result: FAILED" in out or "signal" in out or "process didn't exit successfully" in out)

    try:
        os.makedirs(os.path.join(wt, "tests"), exist_ok=True)
        demo = os.path.join(wt, "tests", "demo.rs")
        with open(os.path.join(mdir, "demo.rs")) as f:
            src = f.read()
        rc, out = sh(["git", "apply", os.path.join(mdir, "patch.diff")], cwd=wt)
        res["applies"] = rc == 0
        if rc != 0:
            res["apply_output"] = out[-800:]
            return res
        rc, out = sh(["cargo", "test", "--offline", "--lib"], cwd=wt, env=env)
        m = re.search(r"test result: (\w+)\. (\d+) passed; (\d+) failed", out)
        res["tests_pass_with_patch"] = rc == 0 and bool(m) and m.group(2) == "73" and m.group(3) == "0"
        res["unit_tests"] = m.group(0) if m else out[-600:]
        rc, out = sh(["cargo", "test", "--offline", "--doc"], cwd=wt, env=env)
        m = re.search(r"test result: (\w+)\. (\d+) passed; (\d+) failed", out)
        res["doctests_pass_with_patch"] = rc == 0
        res["doc_tests"] = m.group(0) if m else out[-600:]
        with open(demo, "w") as f:
            f.write(src)
        profile = []
        rc, out = sh(["cargo", "test", "--offline", "--test", "demo"], cwd=wt, env=env)
        if not demo_fails(out, rc):
            profile = ["--release"]
            rc, out = sh(["cargo", "test", "--offline", "--release", "--test", "demo"], cwd=wt, env=env)
        res["demo_profile"] = "release" if profile else "debug"
        res["demo_fails_with_patch"] = demo_fails(out, rc)
        if rc == 0:
            res["demo_with_patch_output"] = out[-800:]
        # without the patch: demo passes (same profile)
        os.remove(demo)
        sh(["git", "checkout", "--", "."], cwd=wt)
        with open(demo, "w") as f:
            f.write(src)
        rc, out = sh(["cargo", "test", "--offline"] + profile + ["--test", "demo"], cwd=wt, env=env)
        res["demo_passes_without_patch"] = rc == 0
        if rc != 0:
            res["demo_without_patch_output"] = out[-1500:]
    finally:
        sh(["git", "-C", "/repo", "worktree", "remove", "--force", wt])
        sh(["rm", "-rf", wt])
    return res


def detect(mdir, ids):
    mdir = os.path.abspath(mdir)
    rc, out = sh(["git", "-C", "/repo", "status", "--porcelain", "--untracked-files=no"])
    if out.strip():
        print("/repo has local modifications, refusing:\n" + out)
        sys.exit(2)
    rc, out = sh(["git", "-C", "/repo", "apply", os.path.join(mdir, "patch.diff")])
    if rc != 0:
        print("patch does not apply to /repo:\n" + out)
        return None
    fired = {}
    try:
        for pid in ids:
            t0 = time.time()
            rc, out = sh([os.path.join(VERIF, "check"), pid, "--tier", "quick"], cwd=VERIF)
            fired[pid] = parse_fired(rc, out, t0)
    finally:
        sh(["git", "-C", "/repo", "checkout", "--", "."])
    return fired


def parse_fired(rc, out, t0):
    rules = sorted(set(re.findall(r"^  \[[a-z]+/([^\]]+)\]", out, re.M)))
    first = ""
    m = re.search(r"^  \[[^\]]+\] (.*)$", out, re.M)
    if m:
        first = m.group(1)[:300]
    r = dict(exit=rc, rules=rules[:8], first=first, wall_s=round(time.time() - t0, 1))
    if rc == 2:
        m = re.search(r"INCONCLUSIVE.*", out)
        r["inconclusive"] = m.group(0)[:300] if m else out[-300:]
    return r


import queue
import threading

SLOTS = queue.Queue()
_slots_made = []
_slot_lock = threading.Lock()


def _get_slot():
    """A scratch slot = /tmp/sdslot-<pid>-<k>/{wt (worktree of /repo), v (copy of the committed
    machinery)}; slots are reused between changes so that cargo only rebuilds ppp and the monitor."""
    try:
        return SLOTS.get_nowait()
    except queue.Empty:
        pass
    with _slot_lock:
        k = len(_slots_made)
        base = "/tmp/sdslot-%d-%d" % (os.getpid(), k)
        _slots_made.append(base)
    os.makedirs(base, exist_ok=True)
    rc, out = sh(["git", "-C", "/repo", "worktree", "add", "-q", "--detach", base + "/wt", "HEAD"])
    if rc != 0:
        print(out)
        return None
    return base


def cleanup_slots():
    for base in _slots_made:
        sh(["git", "-C", "/repo", "worktree", "remove", "--force", base + "/wt"])
        sh(["rm", "-rf", base])
    sh(["git", "-C", "/repo", "worktree", "prune"])


def detect_scratch(mdir, ids, jobs=4, tier="quick"):
    """Like detect, but never touches /repo's working tree: a scratch worktree of /repo gets the patch,
    a scratch copy of the committed machinery (git archive of /verif HEAD - or of the commit named
    by VERIF_REV, to measure a first pass against the machinery as it stood when a round of changes
    was commissioned - so edits in progress do not leak in) is pointed at it, results go to the scratch copy. Used to evaluate many seeded
    changes in parallel; call cleanup_slots() at the end."""
    mdir = os.path.abspath(mdir)
    base = _get_slot()
    if base is None:
        return None
    wt, hz = base + "/wt", base + "/v"
    fired = {}
    try:
        sh(["git", "checkout", "-q", "--detach", "HEAD"], cwd=wt)
        sh(["git", "checkout", "--", "."], cwd=wt)
        sh(["git", "clean", "-fdq", "-e", "target"], cwd=wt)
        rc, out = sh(["git", "apply", os.path.join(mdir, "patch.diff")], cwd=wt)
        if rc != 0:
            print("patch does not apply:\n" + out)
            return None
        os.makedirs(hz, exist_ok=True)
        rc, out = sh(["bash", "-c", "git -C %s archive %s check harness known_findings.json | tar -x -C %s" % (VERIF, os.environ.get("VERIF_REV", "HEAD"), hz)])
        if rc != 0:
            print(out)
            return None
        ct = os.path.join(hz, "harness", "monitor", "Cargo.toml")
        with open(ct) as f:
            t = f.read()
        with open(ct, "w") as f:
            f.write(t.replace('path = "/repo"', 'path = "%s"' % wt))
        sh(["rm", "-rf", os.path.join(hz, "evidence"), os.path.join(hz, "replays")])
        env = dict(ENV, VERIF_JOBS=str(jobs))
        env.pop("VERIF_HARNESS", None)
        env.pop("VERIF_OUT", None)
        for pid in ids:
            t0 = time.time()
            rc, out = sh([os.path.join(hz, "check"), pid, "--tier", tier], cwd=hz, env=env)
            fired[pid] = parse_fired(rc, out, t0)
    finally:
        sh(["git", "checkout", "--", "."], cwd=wt)
        SLOTS.put(base)
    return fired


def load_meta(mdir):
    try:
        with open(os.path.join(mdir, "meta.json")) as f:
            return json.load(f)
    except (OSError, ValueError):
        return {}


def save_meta(mdir, meta):
    with open(os.path.join(mdir, "meta.json"), "w") as f:
        json.dump(meta, f, indent=1)


def main():
    if len(sys.argv) < 2:
        print(__doc__)
        sys.exit(2)
    cmd = sys.argv[1]
    if cmd == "confirm":
        mdir = sys.argv[2]
        res = confirm(mdir)
        meta = load_meta(mdir)
        meta["confirmed"] = res
        save_meta(mdir, meta)
        ok = res["applies"] and res["tests_pass_with_patch"] and res["demo_fails_with_patch"] and res["demo_passes_without_patch"]
        print(json.dumps(res, indent=1))
        print("CONFIRMED" if ok else "NOT-CONFIRMED")
        sys.exit(0 if ok else 1)
    if cmd == "confirm-all":
        # seeded.py confirm-all [--par N] name-prefix...
        import concurrent.futures
        args = sys.argv[2:]
        par = 4
        if "--par" in args:
            par = int(args[args.index("--par") + 1])
            del args[args.index("--par"):args.index("--par") + 2]
        root = os.path.join(VERIF, "seeded")
        todo = [d for d in sorted(os.listdir(root)) if os.path.isfile(os.path.join(root, d, "patch.diff")) and any(d.startswith(a) or d.endswith(a) for a in args)]

        def one(d):
            return d, confirm(os.path.join(root, d))

        bad = 0
        with concurrent.futures.ThreadPoolExecutor(max_workers=par) as ex:
            for d, res in ex.map(one, todo):
                mdir = os.path.join(root, d)
                meta = load_meta(mdir)
                meta["confirmed"] = res
                save_meta(mdir, meta)
                ok = res["applies"] and res["tests_pass_with_patch"] and res["demo_fails_with_patch"] and res["demo_passes_without_patch"]
                bad += 0 if ok else 1
                print(d, "CONFIRMED" if ok else "NOT-CONFIRMED", res.get("demo_profile"), flush=True)
        sys.exit(1 if bad else 0)
    if cmd == "own":
        # seeded.py own [--par N] name-part...: every selected change against the quick check of its own property
        import concurrent.futures
        args = sys.argv[2:]
        par = 4
        if "--par" in args:
            par = int(args[args.index("--par") + 1])
            del args[args.index("--par"):args.index("--par") + 2]
        root = os.path.join(VERIF, "seeded")
        exact = os.environ.get("VERIF_EXACT") == "1"
        todo = [d for d in sorted(os.listdir(root)) if os.path.isfile(os.path.join(root, d, "patch.diff")) and (not args or any((d == a) if exact else (d.startswith(a) or d.endswith(a)) for a in args))]

        def one(d):
            mdir = os.path.join(root, d)
            pid = load_meta(mdir).get("breaks")
            return d, pid, detect_scratch(mdir, [pid], jobs=max(2, 16 // par))

        missed = []
        with concurrent.futures.ThreadPoolExecutor(max_workers=par) as ex:
            for d, pid, fired in ex.map(one, todo):
                if fired is None:
                    print(d, "FAILED", flush=True)
                    continue
                mdir = os.path.join(root, d)
                meta = load_meta(mdir)
                meta.setdefault("detected_by", {})[pid] = fired[pid]
                save_meta(mdir, meta)
                r = fired[pid]
                print("%s: %s %s %s" % (d, {0: "MISSED", 1: "caught", 2: "INCONCLUSIVE"}.get(r["exit"], r["exit"]), r["rules"][:3], (r.get("inconclusive") or r["first"])[:150]), flush=True)
                if r["exit"] != 1:
                    missed.append(d)
        print("missed:", " ".join(missed))
        cleanup_slots()
        sys.exit(0)
    if cmd in ("detect", "detect-scratch"):
        mdir = sys.argv[2]
        ids = sys.argv[3:] or IDS
        fired = detect(mdir, ids) if cmd == "detect" else detect_scratch(mdir, ids)
        cleanup_slots()
        if fired is None:
            sys.exit(2)
        meta = load_meta(mdir)
        meta.setdefault("detected_by", {})
        for pid, r in fired.items():
            meta["detected_by"][pid] = r
        if cmd == "detect":
            meta["detect_ran"] = "git -C /repo apply patch.diff; ./check <ID> --tier quick for " + ",".join(ids) + "; git -C /repo checkout -- ."
        else:
            meta["detect_ran"] = "scratch worktree of /repo + patch.diff, scratch copy of /verif/harness pointed at it; ./check <ID> --tier quick for " + ",".join(ids) + "; all removed afterwards"
        save_meta(mdir, meta)
        hits = [p for p, r in fired.items() if r["exit"] == 1]
        inc = [p for p, r in fired.items() if r["exit"] == 2]
        print("%s: fired %s%s" % (os.path.basename(mdir.rstrip("/")), ",".join(hits) or "NONE", (" inconclusive " + ",".join(inc)) if inc else ""))
        for p in hits:
            print("   %s %s :: %s" % (p, fired[p]["rules"][:3], fired[p]["first"][:160]))
        sys.exit(0)
    if cmd == "matrix":
        # seeded.py matrix [--par N] [name-prefix ...]: every seeded change x all 20 quick checks, N changes at a time in scratch copies
        import concurrent.futures
        args = sys.argv[2:]
        par = 4
        if "--par" in args:
            par = int(args[args.index("--par") + 1])
            del args[args.index("--par"):args.index("--par") + 2]
        root = os.path.join(VERIF, "seeded")
        try:
            with open(os.path.join(root, "MATRIX.json")) as f:
                rows = json.load(f)
        except (OSError, ValueError):
            rows = {}
        todo = [d for d in sorted(os.listdir(root)) if os.path.isfile(os.path.join(root, d, "patch.diff")) and (not args or any(d.startswith(a) for a in args))]

        def one(d):
            mdir = os.path.join(root, d)
            return d, detect_scratch(mdir, IDS, jobs=max(2, 16 // par))

        with concurrent.futures.ThreadPoolExecutor(max_workers=par) as ex:
            for d, fired in ex.map(one, todo):
                if fired is None:
                    print(d, "FAILED", flush=True)
                    continue
                mdir = os.path.join(root, d)
                meta = load_meta(mdir)
                meta["detected_by"] = fired
                meta["detect_ran"] = "scratch worktree of /repo + patch.diff, scratch copy of /verif/harness pointed at it; ./check <ID> --tier quick for all 20; all removed afterwards"
                save_meta(mdir, meta)
                rows[d] = dict(breaks=meta.get("breaks"), fired=[p for p, r in fired.items() if r["exit"] == 1], inconclusive=[p for p, r in fired.items() if r["exit"] == 2])
                print(d, rows[d], flush=True)
                with open(os.path.join(root, "MATRIX.json"), "w") as f:
                    json.dump(rows, f, indent=1)
        cleanup_slots()
        sys.exit(0)
    print(__doc__)
    sys.exit(2)


if __name__ == "__main__":
    main()
