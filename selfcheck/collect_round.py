#!/usr/bin/env python3
"""collect_round.py <round-dir> <round-number> <origin text>: copies <round-dir>/<ID>/out/<k>/ to
/verif/seeded/<ID>-<next free n>/ (patch.diff, demo.rs, notes.md, meta.json with breaks / origin /
needs_to_manifest). Already collected outputs (marker file out/<k>/.collected) are skipped."""
import json, os, re, shutil, sys

VERIF = os.path.dirname(os.path.dirname(os.path.abspath(__file__)))
rdir, rnd, origin = sys.argv[1], int(sys.argv[2]), sys.argv[3]
seeded = os.path.join(VERIF, "seeded")
for pid in sorted(os.listdir(rdir)):
    out = os.path.join(rdir, pid, "out")
    if not re.fullmatch(r"[CX]\d\d", pid) or not os.path.isdir(out):
        continue
    for k in sorted(os.listdir(out)):
        src = os.path.join(out, k)
        if not all(os.path.isfile(os.path.join(src, f)) for f in ("patch.diff", "demo.rs", "needs.txt", "notes.md")):
            continue
        if os.path.exists(os.path.join(src, ".collected")):
            continue
        used = [int(m.group(1)) for d in os.listdir(seeded) for m in [re.fullmatch(re.escape(pid) + r"-(\d+)", d)] if m]
        n = max(used + [0]) + 1
        dst = os.path.join(seeded, "%s-%d" % (pid, n))
        os.makedirs(dst)
        for f in ("patch.diff", "demo.rs", "notes.md"):
            if os.path.isfile(os.path.join(src, f)):
                shutil.copy(os.path.join(src, f), os.path.join(dst, f))
        needs = ""
        if os.path.isfile(os.path.join(src, "needs.txt")):
            needs = open(os.path.join(src, "needs.txt")).read().strip()
        meta = dict(breaks=pid, round=rnd, origin=origin, needs_to_manifest=needs)
        bt = os.path.join(src, "breaks.txt")
        if pid.startswith("X") and os.path.isfile(bt):
            lines = [l.strip() for l in open(bt).read().splitlines()]
            ids = re.findall(r"C\d\d", lines[0]) if lines else []
            if ids:
                meta["breaks"] = ids[0]
                also = ids[1:] + (re.findall(r"C\d\d", lines[1]) if len(lines) > 1 else [])
                meta["also_breaks"] = [a for i, a in enumerate(also) if a != ids[0] and a not in also[:i]]
        with open(os.path.join(dst, "meta.json"), "w") as f:
            json.dump(meta, f, indent=1)
        open(os.path.join(src, ".collected"), "w").write(dst)
        print("collected", src, "->", dst)
