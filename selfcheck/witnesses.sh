#!/bin/bash
# Replays every recorded defect witness (findings/*.json):
#   on the current tree                -> must be silent (the defects are repaired)
#   with --pinned on the pinned sources -> must fire  (hooks commit 699c5ee = pinned tree + hooks)
# The pinned sources are checked out into /repo's working tree and restored straight afterwards.
cd "$(dirname "$0")/.."
PINNED=699c5ee
mode=current
[ "$1" = "--pinned" ] && mode=pinned
if [ $mode = pinned ]; then
  git -C /repo diff --quiet || { echo "/repo has local changes; refusing"; exit 2; }
  git -C /repo checkout -q $PINNED -- src
  trap 'git -C /repo checkout -q HEAD -- src' EXIT
fi
bad=0
for f in findings/*.json; do
  p=$(python3 -c "import json;print(json.load(open('$f'))['property'])")
  out=$(./check $p --replay $f 2>&1); rc=$?
  if [ $mode = current ] && [ $rc -ne 0 ]; then echo "UNEXPECTED: $f fires on the repaired tree"; bad=1; fi
  if [ $mode = pinned ] && [ $rc -ne 1 ]; then echo "UNEXPECTED: $f is silent on the pinned tree (rc=$rc)"; bad=1; fi
  echo "$mode $f rc=$rc $(echo "$out" | grep -c '^  \[') rule(s) fired"
done
exit $bad
