#!/usr/bin/env python3
"""Renders the seeded-change table of DESIGN.md section 9.6 from seeded/*/meta.json and writes it
between the MATRIX-BEGIN / MATRIX-END markers of DESIGN.md (and to seeded/MATRIX.md)."""
import json
import os
import re

VERIF = os.path.dirname(os.path.dirname(os.path.abspath(__file__)))
root = os.path.join(VERIF, "seeded")
rows = []
own = caught_any = total = 0
misses = []
for d in sorted(os.listdir(root), key=lambda x: (x[0] != "C", x)):
    mp = os.path.join(root, d, "meta.json")
    if not os.path.isfile(mp) or not os.path.isfile(os.path.join(root, d, "patch.diff")):
        continue
    meta = json.load(open(mp))
    if meta.get("kind") == "honest":
        continue
    b = meta.get("breaks", "")
    det = meta.get("detected_by", {})
    total += 1
    o = det.get(b, {})
    fired_own = o.get("exit") == 1
    others = sorted(p for p, r in det.items() if p != b and r.get("exit") == 1)
    if fired_own:
        own += 1
    if fired_own or others:
        caught_any += 1
    elif b in det:
        misses.append(d)
    if meta.get("also_breaks"):
        b_all = ", ".join([b] + meta["also_breaks"])
    else:
        b_all = b
    need = (("[written against " + b_all + "] ") if d.startswith("X") else "") + (meta.get("needs_to_manifest") or "").replace("|", "\\|").replace("\n", " ")
    need = re.sub(r"\s+", " ", need)
    if len(need) > 230:
        need = need[:227] + "..."
    if fired_own:
        cell = "**%s**: %s" % (b, ", ".join("`%s`" % r for r in o.get("rules", [])[:3]))
    elif b not in det:
        cell = "(not evaluated yet)"
    elif meta.get("not_reported_because"):
        cell = "not reported (%s)" % meta["not_reported_because"]
    else:
        cell = "**%s**: not caught" % b
    if others:
        cell += "; also " + ", ".join(others)
    prof = (meta.get("confirmed") or {}).get("demo_profile")
    rows.append("| %s | %s%s | %s |" % (d, need, " *(release builds only)*" if prof == "release" else "", cell))

out = ["| change | needs, in order to manifest | quick checks that fire |", "|---|---|---|"] + rows
out.append("")
out.append("%d changes; %d caught by the quick check of the property they were written against, %d by at least one check; not caught: %s." % (
    total, own, caught_any, ", ".join(misses) or "none"))
# honest patches (rounds 6 and 10): expected outcome = no check fires
hon = []
for d in sorted(os.listdir(root)):
    mp = os.path.join(root, d, "meta.json")
    if not os.path.isfile(mp):
        continue
    meta = json.load(open(mp))
    if meta.get("kind") != "honest":
        continue
    det = meta.get("detected_by", {})
    fired = sorted(p for p, r in det.items() if r.get("exit") == 1)
    inc = sorted(p for p, r in det.items() if r.get("exit") == 2)
    first = ""
    try:
        first = open(os.path.join(root, d, "notes.md")).read().strip().splitlines()[0][:200]
    except OSError:
        pass
    hon.append("| %s | %s | %d of 20 quick checks run; fired: %s%s |" % (d, first.replace("|", "\\|"), len(det), ", ".join(fired) or "none", ("; inconclusive: " + ", ".join(inc)) if inc else ""))
if hon:
    out.append("")
    out.append("Honest patches (rounds 6 and 10; every check is expected to stay silent):")
    out.append("")
    out.append("| patch | what it is (first line of its notes) | outcome |")
    out.append("|---|---|---|")
    out.extend(hon)
text = "\n".join(out)
open(os.path.join(root, "MATRIX.md"), "w").write(text + "\n")
dp = os.path.join(VERIF, "DESIGN.md")
s = open(dp).read()
a = s.index("<!-- MATRIX-BEGIN -->") + len("<!-- MATRIX-BEGIN -->")
b = s.index("<!-- MATRIX-END -->")
open(dp, "w").write(s[:a] + "\n" + text + "\n" + s[b:])
print(out[-1])
