#!/usr/bin/env python3
"""Renders seeded/MATRIX.json (+ meta.json of each seeded change) as the markdown table of DESIGN.md §9.3."""
import json, os
root = os.path.join(os.path.dirname(os.path.dirname(os.path.abspath(__file__))), "seeded")
m = json.load(open(os.path.join(root, "MATRIX.json")))
print("| change | breaks | needs, in order to manifest | quick checks that fire |")
print("|---|---|---|---|")
own = 0
for k in sorted(m):
    meta = json.load(open(os.path.join(root, k, "meta.json")))
    fired = m[k]["fired"]
    b = meta.get("breaks", "")
    if b in fired:
        own += 1
    cell = ", ".join(("**%s**" % f) if f == b else f for f in fired) or "none"
    if m[k].get("inconclusive"):
        cell += " (inconclusive: %s)" % ", ".join(m[k]["inconclusive"])
    print("| %s | %s | %s | %s |" % (k, b, meta.get("needs_to_manifest", "").replace("|", "\\|"), cell))
print()
print("%d changes; %d caught by at least one check, %d by the check of the property they were written against." % (
    len(m), sum(1 for k in m if m[k]["fired"]), own))
